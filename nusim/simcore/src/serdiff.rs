//! Write-side differential: serialize `Shape<T>` and `Shape<Twin>` (and, at the bare position,
//! the inner value alone) through cloned `SimWriter`s under one write plan, or through the
//! tracing SimFormat serializer, and compare call sequences, bytes and outcomes.

use std::io::Write;
use std::panic::{catch_unwind, AssertUnwindSafe};

use serde::de::DeserializeOwned;
use serde::Serialize;

use crate::codec::{self, Format};
use crate::decl::Decl;
use crate::runner::panic_message;
use crate::shapes::{self, Aux, Fallthrough, ShapeId, ShapeVisitor};
use crate::simformat::{Tok, TokSer};
use crate::simio::{SimWriter, WriteLog, WriteStep};

#[derive(Clone, Debug, PartialEq)]
pub struct WriteOutcome {
    pub ok: bool,
    pub panicked: Option<String>,
    pub out: Vec<u8>,
    pub offered: Vec<u32>,
    pub chunks: Vec<u32>,
    pub calls: u64,
    pub log: WriteLog,
    pub err: String,
}

fn write_one<T: Serialize + ?Sized>(fmt: Format, v: &T, plan: &[WriteStep], tail: u32, flush_fail_at: Option<u32>) -> WriteOutcome {
    let mut w = SimWriter::with_plan(plan.to_vec(), tail, flush_fail_at);
    let r = catch_unwind(AssertUnwindSafe(|| {
        let r = codec::ser(fmt, v, &mut w);
        match r {
            Ok(()) => w.flush().map_err(|e| format!("flush: {e}")),
            Err(e) => Err(e),
        }
    }));
    let (ok, panicked, err) = match r {
        Ok(Ok(())) => (true, None, String::new()),
        Ok(Err(e)) => (false, None, e),
        Err(p) => (false, Some(panic_message(&p)), String::new()),
    };
    WriteOutcome { ok, panicked, offered: w.log.offered.clone(), chunks: w.log.chunks.clone(), calls: w.log.calls, out: w.out, log: w.log, err }
}

pub struct SerPair {
    pub a: WriteOutcome,
    pub b: WriteOutcome,
    /// Only at the bare position: the sanitized inner value serialized on its own.
    pub inner: Option<WriteOutcome>,
    /// Inner reprs of the values that were serialized (after sanitisation).
    pub reprs: Vec<String>,
    pub aux: String,
}

#[derive(Clone, Debug, PartialEq)]
pub struct TraceOutcome {
    pub ok: bool,
    pub panicked: Option<String>,
    pub toks: Vec<Tok>,
    pub calls: usize,
    pub injected: bool,
    pub err: String,
}

fn trace_one<T: Serialize + ?Sized>(v: &T, fail_at: Option<usize>, binary: bool) -> TraceOutcome {
    let mut s = if binary { TokSer::binary(fail_at) } else { TokSer::new(fail_at) };
    let r = catch_unwind(AssertUnwindSafe(|| v.serialize(&mut s)));
    let (ok, panicked, err) = match r {
        Ok(Ok(())) => (true, None, String::new()),
        Ok(Err(e)) => (false, None, e.0),
        Err(p) => (false, Some(panic_message(&p)), String::new()),
    };
    TraceOutcome { ok, panicked, calls: s.calls, injected: s.injected, toks: s.toks, err }
}

pub struct TracePair {
    pub a: TraceOutcome,
    pub b: TraceOutcome,
    pub inner: Option<TraceOutcome>,
}

enum Mode<'p> {
    Write { fmt: Format, plan: &'p [WriteStep], tail: u32, flush_fail_at: Option<u32> },
    Trace { fail_at: Option<usize>, binary: bool },
}

pub enum PairOut {
    Write(SerPair),
    Trace(TracePair),
}

struct SerVisitor<'p, D: Decl> {
    mode: Mode<'p>,
    aux: &'p Aux,
    /// Raw values the real constructor accepts (checked by the caller).
    raws: Vec<D::TwinInner>,
    bare: bool,
}

impl<'p, D: Decl> ShapeVisitor<D> for SerVisitor<'p, D> {
    type Out = Result<PairOut, String>;
    fn visit<A, B>(
        self,
        build_a: fn(Vec<D>, &Aux) -> A,
        build_b: fn(Vec<D::Twin>, &Aux) -> B,
        _split_a: fn(A) -> (Vec<D>, String),
        _split_b: fn(B) -> (Vec<D::Twin>, String),
        _fallthrough: Option<Fallthrough>,
    ) -> Self::Out
    where
        A: Serialize + DeserializeOwned,
        B: Serialize + DeserializeOwned,
    {
        let mut ts = Vec::new();
        let mut tws = Vec::new();
        let mut reprs = Vec::new();
        let mut first_inner: Option<D::TwinInner> = None;
        for r in &self.raws {
            let t = D::lift(r.clone()).and_then(D::construct)?;
            let again = D::lift(r.clone()).and_then(D::construct)?;
            let inner = again.into_inner();
            reprs.push(D::repr(&inner));
            let low = D::lower(&inner);
            if first_inner.is_none() {
                first_inner = Some(low.clone());
            }
            tws.push(D::twin_wrap(low));
            ts.push(t);
        }
        let ha = build_a(ts, self.aux);
        let hb = build_b(tws, self.aux);
        match self.mode {
            Mode::Write { fmt, plan, tail, flush_fail_at } => {
                let a = write_one(fmt, &ha, plan, tail, flush_fail_at);
                let b = write_one(fmt, &hb, plan, tail, flush_fail_at);
                let inner = match (&first_inner, self.bare) {
                    (Some(i), true) => Some(write_one(fmt, i, plan, tail, flush_fail_at)),
                    _ => None,
                };
                Ok(PairOut::Write(SerPair { a, b, inner, reprs, aux: String::new() }))
            }
            Mode::Trace { fail_at, binary } => {
                let a = trace_one(&ha, fail_at, binary);
                let b = trace_one(&hb, fail_at, binary);
                let inner = match (&first_inner, self.bare) {
                    // The inner value is one call shorter (no serialize_newtype_struct): shift k.
                    (Some(i), true) => Some(trace_one(i, fail_at.and_then(|k| k.checked_sub(1)), binary)),
                    _ => None,
                };
                Ok(PairOut::Trace(TracePair { a, b, inner }))
            }
        }
    }
}

pub fn ser_pair<D: Decl>(
    shape: ShapeId,
    core: bool,
    fmt: Format,
    aux: &Aux,
    raws: Vec<D::TwinInner>,
    plan: &[WriteStep],
    tail: u32,
    flush_fail_at: Option<u32>,
) -> Result<SerPair, String> {
    let v = SerVisitor::<D> { mode: Mode::Write { fmt, plan, tail, flush_fail_at }, aux, raws, bare: shape == ShapeId::Bare };
    let r = { let _ = core; <D::Shapes as shapes::ShapeSet>::dispatch::<D, _>(shape, v) };
    match r? {
        PairOut::Write(p) => Ok(p),
        PairOut::Trace(_) => unreachable!(),
    }
}

pub fn trace_pair<D: Decl>(shape: ShapeId, core: bool, aux: &Aux, raws: Vec<D::TwinInner>, fail_at: Option<usize>) -> Result<TracePair, String> {
    trace_pair_as::<D>(shape, core, aux, raws, fail_at, false)
}

/// As `trace_pair`, with a peer that reports `is_human_readable() == !binary`.
pub fn trace_pair_as<D: Decl>(shape: ShapeId, core: bool, aux: &Aux, raws: Vec<D::TwinInner>, fail_at: Option<usize>, binary: bool) -> Result<TracePair, String> {
    let v = SerVisitor::<D> { mode: Mode::Trace { fail_at, binary }, aux, raws, bare: shape == ShapeId::Bare };
    let r = { let _ = core; <D::Shapes as shapes::ShapeSet>::dispatch::<D, _>(shape, v) };
    match r? {
        PairOut::Trace(p) => Ok(p),
        PairOut::Write(_) => unreachable!(),
    }
}

//! What the harness needs to know about one catalogue declaration.

use std::borrow::Cow;
use std::fmt::Debug;

use serde::de::DeserializeOwned;
use serde::Serialize;

use crate::rng::Rng;

/// Bit-exact, deterministic rendering of an inner value (floats by bit pattern).
pub trait Repr {
    fn repr(&self) -> String;
}

macro_rules! repr_display {
    ($($t:ty),*) => { $( impl Repr for $t { fn repr(&self) -> String { format!("{}{}", self, stringify!($t)) } } )* };
}
repr_display!(u8, u16, u32, u64, u128, usize, i8, i16, i32, i64, i128, isize, bool);

impl Repr for f32 {
    fn repr(&self) -> String {
        format!("f32:{:08x}", self.to_bits())
    }
}
impl Repr for f64 {
    fn repr(&self) -> String {
        format!("f64:{:016x}", self.to_bits())
    }
}
impl Repr for char {
    fn repr(&self) -> String {
        format!("c:{:x}", *self as u32)
    }
}
impl Repr for String {
    fn repr(&self) -> String {
        format!("{:?}", self)
    }
}
impl<'a> Repr for Cow<'a, str> {
    fn repr(&self) -> String {
        format!("{:?}", self.as_ref())
    }
}
impl Repr for std::net::IpAddr {
    fn repr(&self) -> String {
        format!("ip:{self}")
    }
}
impl<T: Repr, const N: usize> Repr for [T; N] {
    fn repr(&self) -> String {
        let v: Vec<String> = self.iter().map(|x| x.repr()).collect();
        format!("[{};{}]", v.join(","), N)
    }
}
impl<K: Repr, V: Repr> Repr for std::collections::BTreeMap<K, V> {
    fn repr(&self) -> String {
        let v: Vec<String> = self.iter().map(|(k, v)| format!("{}=>{}", k.repr(), v.repr())).collect();
        format!("{{{}}}", v.join(","))
    }
}
impl Repr for () {
    fn repr(&self) -> String {
        "()".to_string()
    }
}
impl<T: Repr> Repr for Vec<T> {
    fn repr(&self) -> String {
        let v: Vec<String> = self.iter().map(|x| x.repr()).collect();
        format!("[{}]", v.join(","))
    }
}
impl<T: Repr> Repr for Option<T> {
    fn repr(&self) -> String {
        match self {
            None => "None".into(),
            Some(x) => format!("Some({})", x.repr()),
        }
    }
}
impl<A: Repr, B: Repr> Repr for (A, B) {
    fn repr(&self) -> String {
        format!("({},{})", self.0.repr(), self.1.repr())
    }
}

pub trait Decl: Sized + Serialize + DeserializeOwned + 'static {
    /// The inner type of the newtype.
    type Inner: Clone + Debug + 'static;
    /// What the twin wraps: `Inner`, except for a newtype over a newtype (then the inner twin).
    type TwinInner: Clone + Debug + Serialize + DeserializeOwned + 'static;
    /// `#[derive(Serialize, Deserialize)] struct <same name>(pub TwinInner);`
    type Twin: Serialize + DeserializeOwned + 'static;
    /// The container positions this declaration is exercised in.
    type Shapes: crate::shapes::ShapeSet;

    const NAME: &'static str;
    const TEXT: &'static str;
    const FAMILY: &'static str;
    const HAS_VALIDATION: bool;

    /// The REAL constructor: `try_new` (error rendered with `{:?}`) or `Ok(new(..))`.
    fn construct(raw: Self::Inner) -> Result<Self, String>;
    fn into_inner(self) -> Self::Inner;
    fn inner_ref_repr(&self) -> String;
    /// Identity, except for nested newtypes where it runs the inner newtype's constructor.
    fn lift(t: Self::TwinInner) -> Result<Self::Inner, String>;
    fn lower(i: &Self::Inner) -> Self::TwinInner;
    fn twin_wrap(raw: Self::TwinInner) -> Self::Twin;
    fn twin_unwrap(t: Self::Twin) -> Self::TwinInner;
    fn repr(inner: &Self::Inner) -> String;
    /// Rendering of a raw (twin-side) value, comparable with `repr` of an inner value.
    fn repr_raw(t: &Self::TwinInner) -> String {
        match Self::lift(t.clone()) {
            Ok(i) => Self::repr(&i),
            Err(e) => format!("unliftable({e}):{t:?}"),
        }
    }
    /// Seeded generator of raw inner values: valid, at-bound, adjacent-to-bound, invalid,
    /// unsanitised, extreme.
    fn gen(rng: &mut Rng) -> Self::TwinInner;
    /// A small fixed list of raw inner values (valid, boundary, invalid, unsanitised) for the
    /// seed-independent single-fault enumeration.
    fn corpus() -> Vec<Self::TwinInner>;
}

// ------------------------------------------------------------------------------------ generators

pub const WHITESPACE: &[char] = &[
    ' ', '\t', '\n', '\u{0B}', '\u{0C}', '\r', '\u{85}', '\u{A0}', '\u{1680}', '\u{2000}', '\u{2001}', '\u{2002}',
    '\u{2003}', '\u{2004}', '\u{2005}', '\u{2006}', '\u{2007}', '\u{2008}', '\u{2009}', '\u{200A}', '\u{2028}',
    '\u{2029}', '\u{202F}', '\u{205F}', '\u{3000}',
];

pub const CASE_SPECIAL: &[char] = &[
    'ß', 'İ', 'ı', 'ŉ', 'ǆ', 'ǅ', 'Ǆ', 'ǰ', 'ΐ', 'Σ', 'σ', 'ς', 'ﬀ', 'ﬃ', 'ẞ', 'ա', 'և', 'K', 'Å', 'ⅷ', 'Ⓐ', 'ǲ', 'ᾈ', 'ᾳ',
    'ῼ', '\u{0345}', '\u{0307}', '\u{0301}',
];

pub const MISC: &[char] = &['\0', '"', '\\', '/', '\u{7f}', '\u{200B}', '\u{FEFF}', '😀', '𝔘', '\u{10FFFF}', '\u{E000}', 'é', '中', '-', '0', '9'];

/// EVERY scalar value whose upper- or lower-case mapping is more than one char, plus every
/// titlecase-like char (changed by a case mapping although it is neither `is_uppercase` nor
/// `is_lowercase`). Computed once by scanning all of Unicode in code-point order (deterministic).
pub fn case_expanding() -> &'static [char] {
    static TABLE: std::sync::LazyLock<Vec<char>> = std::sync::LazyLock::new(|| {
        let mut v = Vec::new();
        for cp in 0..=0x10FFFFu32 {
            let Some(c) = char::from_u32(cp) else { continue };
            let up = c.to_uppercase();
            let lo = c.to_lowercase();
            let expands = up.len() > 1 || lo.len() > 1;
            let odd = !c.is_uppercase() && !c.is_lowercase() && (c.to_uppercase().next() != Some(c) || c.to_lowercase().next() != Some(c));
            if expands || odd {
                v.push(c);
            }
        }
        v
    });
    &TABLE
}

pub fn gen_char(rng: &mut Rng) -> char {
    match rng.below(13) {
        0 => *rng.pick(WHITESPACE),
        1 | 2 => *rng.pick(CASE_SPECIAL),
        12 => *rng.pick(case_expanding()),
        3 => *rng.pick(MISC),
        4 => (b'A' + rng.below(26) as u8) as char,
        5 => (b'0' + rng.below(10) as u8) as char,
        6 => '-',
        7 => char::from_u32(rng.below(0x11_0000) as u32).unwrap_or('x'),
        _ => (b'a' + rng.below(26) as u8) as char,
    }
}

/// Strings weighted towards what sanitizer order and validators care about: leading/trailing
/// White_Space of every kind, case-expanding characters, final-sigma contexts, lengths around
/// small bounds.
pub fn gen_string(rng: &mut Rng, max_len: usize) -> String {
    // Rarely: a LONG value (size limits, buffer reuse, length arithmetic in bytes vs chars).
    if rng.chance(1, 160) {
        let n = *rng.pick(&[130usize, 300, 1100, 4200, 66000]);
        let unit: &[char] = match rng.below(4) {
            0 => &['a'],
            1 => &['ß', 'x'],
            2 => &['語', ' ', 'b'],
            _ => &['😀', 'İ', '-', 'q', '_'],
        };
        let mut s = String::with_capacity(n * 2);
        for i in 0..n {
            s.push(unit[i % unit.len()]);
        }
        return s;
    }
    // Sometimes: a string whose BYTE-length bookkeeping coincides - the surrounding white space has
    // exactly as many bytes as a case mapping adds (or removes), so "length unchanged" checks done
    // on byte lengths give the wrong answer.
    if rng.chance(1, 40) {
        let c = *rng.pick(case_expanding());
        let up: String = c.to_uppercase().collect();
        let lo: String = c.to_lowercase().collect();
        let delta = if rng.chance(1, 2) { up.len() as i64 - c.len_utf8() as i64 } else { lo.len() as i64 - c.len_utf8() as i64 };
        let mut core = String::new();
        for _ in 0..rng.below(3) {
            core.push((b'a' + rng.below(26) as u8) as char);
        }
        core.push(c);
        for _ in 0..rng.below(3) {
            core.push((b'a' + rng.below(26) as u8) as char);
        }
        let pad = delta.unsigned_abs() as usize;
        let mut s = String::new();
        let lead = rng.usize_below(pad + 1);
        for i in 0..pad {
            let ws = *rng.pick(&[' ', '\t', '\n']);
            if i < lead {
                s.push(ws);
            }
        }
        s.push_str(&core);
        for _ in lead..pad {
            s.push(*rng.pick(&[' ', '\t', '\n']));
        }
        return s;
    }
    // text as it comes from a shell, a config file or a log: quoted, escaped, newline-terminated
    if rng.chance(1, 40) {
        let core: String = (0..rng.range_usize(0, 4)).map(|_| gen_char(rng)).collect();
        return match rng.below(9) {
            0 => format!("\"{core}\""),
            1 => format!("'{core}'"),
            2 => format!("{core}\n"),
            3 => format!("{core}\r\n"),
            4 => format!("{core}\\n"),
            5 => "\"\"".to_string(),
            6 => format!("\\t{core}\\\\"),
            7 => format!("\"{core}"),
            _ => format!("{core}\r"),
        };
    }
    let mut s = String::new();
    if rng.chance(1, 3) {
        for _ in 0..rng.range_usize(1, 3) {
            s.push(*rng.pick(WHITESPACE));
        }
    }
    let n = match rng.below(8) {
        0 => 0,
        1 => 1,
        2 => max_len,
        3 => max_len + 1,
        4 => max_len.saturating_sub(1),
        _ => rng.range_usize(0, max_len + 2),
    };
    let mode = rng.below(5);
    for i in 0..n {
        let c = match mode {
            0 => (b'a' + rng.below(26) as u8) as char,
            1 => {
                if rng.chance(1, 2) {
                    (b'a' + rng.below(26) as u8) as char
                } else {
                    (b'A' + rng.below(26) as u8) as char
                }
            }
            2 => {
                // Greek with sigmas: final-sigma contexts.
                *rng.pick(&['Α', 'Σ', 'σ', 'ς', 'Ο', ' ', 'α', 'Σ'])
            }
            3 if i % 3 == 1 => *rng.pick(WHITESPACE),
            _ => gen_char(rng),
        };
        s.push(c);
    }
    if rng.chance(1, 3) {
        for _ in 0..rng.range_usize(1, 3) {
            s.push(*rng.pick(WHITESPACE));
        }
    }
    s
}

/// Integers around `[lo, hi]` (as i128) clipped to `[tmin, tmax]`.
pub fn gen_int(rng: &mut Rng, lo: i128, hi: i128, tmin: i128, tmax: i128) -> i128 {
    let v = match rng.below(14) {
        0 => lo,
        1 => hi,
        2 => lo.saturating_sub(1),
        3 => hi.saturating_add(1),
        4 => lo.saturating_add(1),
        5 => hi.saturating_sub(1),
        6 => 0,
        7 => tmin,
        8 => tmax,
        9 => -1,
        10 | 11 => {
            // uniformly inside
            let span = hi.wrapping_sub(lo) as u128;
            if span == 0 {
                lo
            } else {
                lo.wrapping_add((rng.next_u64() as u128 % span.saturating_add(1).max(1)) as i128)
            }
        }
        _ => {
            let span = tmax.wrapping_sub(tmin) as u128;
            let r = ((rng.next_u64() as u128) << 64 | rng.next_u64() as u128) % (span.saturating_add(1).max(1));
            tmin.wrapping_add(r as i128)
        }
    };
    v.clamp(tmin, tmax)
}

pub const F64_SPECIALS: &[f64] = &[
    0.0,
    -0.0,
    1.0,
    -1.0,
    0.5,
    f64::MIN_POSITIVE,
    5e-324,
    -5e-324,
    f64::MAX,
    f64::MIN,
    f64::INFINITY,
    f64::NEG_INFINITY,
    f64::NAN,
    f64::EPSILON,
    1e308,
    -1e308,
    0.1,
    0.30000000000000004,
    1e-7,
    123456789.125,
    9007199254740993.0,
    1.0000000000000002,
    0.9999999999999999,
];

pub fn gen_f64(rng: &mut Rng, lo: f64, hi: f64) -> f64 {
    match rng.below(11) {
        // f32-grid values widened to f64 (their shortest decimal differs between the two widths)
        10 => *rng.pick(F32_SPECIALS) as f64,
        0 | 1 => *rng.pick(F64_SPECIALS),
        // a zero bound is met by both zeros: -0.0 compares equal to it but is spelled with a sign
        2 => if lo == 0.0 && rng.chance(1, 2) { -lo } else { lo },
        3 => if hi == 0.0 && rng.chance(1, 2) { -hi } else { hi },
        4 => f64::from_bits(lo.to_bits().wrapping_add(1)),
        5 => f64::from_bits(hi.to_bits().wrapping_add(1)),
        6 => f64::from_bits(lo.to_bits().wrapping_sub(1)),
        7 => f64::from_bits(rng.next_u64()),
        _ => {
            let t = (rng.next_u64() >> 11) as f64 / (1u64 << 53) as f64;
            lo + t * (hi - lo)
        }
    }
}

pub const F32_SPECIALS: &[f32] = &[
    f32::MAX,
    f32::MIN,
    f32::MIN_POSITIVE,
    -f32::MIN_POSITIVE,
    1e-45,
    -1e-45,
    3.4028233e38,
    f32::EPSILON,
    16777216.0,
    16777217.0,
    0.1,
    36.6,
    0.99999994,
    1.0000001,
    f32::INFINITY,
    f32::NEG_INFINITY,
];

pub fn gen_f32(rng: &mut Rng, lo: f32, hi: f32) -> f32 {
    match rng.below(11) {
        10 => *rng.pick(F32_SPECIALS),
        0 | 1 => *rng.pick(F64_SPECIALS) as f32,
        // a zero bound is met by both zeros: -0.0 compares equal to it but is spelled with a sign
        2 => if lo == 0.0 && rng.chance(1, 2) { -lo } else { lo },
        3 => if hi == 0.0 && rng.chance(1, 2) { -hi } else { hi },
        4 => f32::from_bits(lo.to_bits().wrapping_add(1)),
        5 => f32::from_bits(hi.to_bits().wrapping_add(1)),
        6 => f32::from_bits(lo.to_bits().wrapping_sub(1)),
        7 => f32::from_bits(rng.next_u32()),
        _ => {
            let t = (rng.next_u32() >> 8) as f32 / (1u32 << 24) as f32;
            lo + t * (hi - lo)
        }
    }
}

//! The differential oracle for reads: deserialize `Shape<T>` and `Shape<Twin>` from identical
//! clones of the same simulated reader under the same read plan, then push the twin's elements
//! through the REAL constructor.
//!
//! Why it is exact under faults: `deserialize_newtype_struct` in all three formats forwards to
//! `visit_newtype_struct(self)`, so `T` issues the same read calls as the twin up to the point
//! where it either finishes (then it read exactly what the twin read) or aborts on a validation
//! error (then `expected` is `Err` whatever the twin met later).

use std::panic::{catch_unwind, AssertUnwindSafe};

use serde::de::DeserializeOwned;
use serde::Serialize;

use crate::codec::{self, Api, Format};
use crate::decl::Decl;
use crate::runner::panic_message;
use crate::shapes::{self, Aux, Fallthrough, ShapeId, ShapeVisitor};
use crate::simio::{ReadLog, SimReader};

#[derive(Clone, Debug, PartialEq)]
pub enum Side {
    /// (reprs of the newtype elements' inner values, repr of everything else)
    Ok(Vec<String>, String),
    Err(String),
    Panic(String),
}

impl Side {
    pub fn is_ok(&self) -> bool {
        matches!(self, Side::Ok(..))
    }
    pub fn class(&self) -> &'static str {
        match self {
            Side::Ok(..) => "ok",
            Side::Err(_) => "err",
            Side::Panic(_) => "panic",
        }
    }
}

#[derive(Clone, Debug)]
pub struct GetResult {
    pub a: Side,
    pub b_ok: bool,
    /// Number of twin elements the real constructor rejected (0 if the twin failed to parse).
    pub rejected: usize,
    pub elements: usize,
    pub expected: Side,
    /// Reprs of the twin's deserialized inner values BEFORE the constructor (None if the twin
    /// failed to deserialize).
    pub b_raw: Option<Vec<String>>,
    pub used_fallthrough: bool,
    /// The serde-derived twin itself panicked inside the format library (e.g. serde_json 1.0.117
    /// slices a non-ASCII map key when a bool key is expected): there is no reference for this
    /// read, so no verdict either.
    pub twin_panicked: bool,
    pub log_a: ReadLog,
    pub log_b: ReadLog,
    pub unread_a: usize,
    pub unread_b: usize,
}

impl GetResult {
    /// `None` if the invariant holds, else (invariant, detail).
    pub fn violation(&self) -> Option<(&'static str, String)> {
        if self.twin_panicked {
            return None;
        }
        if let Side::Panic(m) = &self.a {
            return Some(("deserialize_does_not_panic", format!("Deserialize panicked: {m}")));
        }
        if let Side::Panic(m) = &self.expected {
            return Some(("constructor_does_not_panic", format!("the real constructor panicked on a deserialized inner value: {m}")));
        }
        match (&self.a, &self.expected) {
            (Side::Ok(av, aa), Side::Ok(ev, ea)) => {
                if av != ev || aa != ea {
                    Some((
                        "deserialized_value_equals_constructor_result",
                        format!("deserialize gave {av:?} / {aa:?}, constructor applied to the carried inner values gives {ev:?} / {ea:?}"),
                    ))
                } else {
                    None
                }
            }
            (Side::Err(_), Side::Err(_)) => None,
            (Side::Ok(av, _), Side::Err(e)) => Some((
                "deserialize_ok_only_if_constructor_accepts",
                format!("deserialize returned Ok with inner values {av:?} but the inner value does not deserialize or the constructor rejects it: {e}"),
            )),
            (Side::Err(e), Side::Ok(ev, _)) => Some((
                "deserialize_ok_whenever_constructor_accepts",
                format!("deserialize failed ({e}) although the document carries inner values the constructor accepts: {ev:?}"),
            )),
            _ => None,
        }
    }
    pub fn class(&self) -> &'static str {
        match (&self.a, self.b_ok, self.rejected > 0) {
            (Side::Ok(..), _, _) => "accepted",
            (Side::Panic(_), _, _) => "panic",
            (Side::Err(_), true, true) => "rejected_by_validation",
            (Side::Err(_), true, false) => "err_but_twin_ok",
            (Side::Err(_), false, _) => "rejected_by_format_or_io",
        }
    }
}

struct GetVisitor<'r> {
    fmt: Format,
    api: Api,
    reader: &'r SimReader,
}

fn construct_all<D: Decl>(els: Vec<D::Twin>) -> (Result<Vec<String>, String>, usize, usize, Vec<String>) {
    let n = els.len();
    let mut out = Vec::with_capacity(n);
    let mut raw = Vec::with_capacity(n);
    let mut rejected = 0usize;
    let mut first_err: Option<String> = None;
    for tw in els {
        let ti = D::twin_unwrap(tw);
        raw.push(D::repr_raw(&ti));
        match D::lift(ti).and_then(D::construct) {
            Ok(t) => out.push(D::repr(&t.into_inner())),
            Err(e) => {
                rejected += 1;
                first_err.get_or_insert(e);
            }
        }
    }
    match first_err {
        None => (Ok(out), rejected, n, raw),
        Some(e) => (Err(e), rejected, n, raw),
    }
}

impl<'r, D: Decl> ShapeVisitor<D> for GetVisitor<'r> {
    type Out = GetResult;
    fn visit<A, B>(
        self,
        _build_a: fn(Vec<D>, &Aux) -> A,
        _build_b: fn(Vec<D::Twin>, &Aux) -> B,
        split_a: fn(A) -> (Vec<D>, String),
        split_b: fn(B) -> (Vec<D::Twin>, String),
        fallthrough: Option<Fallthrough>,
    ) -> GetResult
    where
        A: Serialize + DeserializeOwned,
        B: Serialize + DeserializeOwned,
    {
        let mut ra = self.reader.clone();
        let mut rb = self.reader.clone();
        let (fmt, api) = (self.fmt, self.api);
        let a = match catch_unwind(AssertUnwindSafe(|| codec::de::<A>(fmt, api, &mut ra))) {
            Ok(Ok(h)) => {
                let (els, aux) = split_a(h);
                Side::Ok(els.into_iter().map(|t| D::repr(&t.into_inner())).collect(), aux)
            }
            Ok(Err(e)) => Side::Err(e),
            Err(p) => Side::Panic(panic_message(&p)),
        };
        let mut twin_panicked = false;
        let b = match catch_unwind(AssertUnwindSafe(|| codec::de::<B>(fmt, api, &mut rb))) {
            Ok(b) => b,
            Err(p) => {
                twin_panicked = true;
                Err(format!("twin panicked in the format library: {}", panic_message(&p)))
            }
        };
        let b_ok = b.is_ok();
        let mut used_fallthrough = false;
        let mut rejected = 0;
        let mut elements = 0;
        let mut b_raw = None;
        let expected = match b {
            Err(e) => Side::Err(format!("twin: {e}")),
            Ok(h) => {
                let (els, aux) = split_b(h);
                match catch_unwind(AssertUnwindSafe(|| construct_all::<D>(els))) {
                    Err(p) => Side::Panic(panic_message(&p)),
                    Ok((r, rej, n, raw)) => {
                        rejected = rej;
                        elements = n;
                        b_raw = Some(raw);
                        match r {
                            Ok(v) => Side::Ok(v, aux),
                            Err(e) => match fallthrough {
                                None => Side::Err(format!("constructor: {e}")),
                                Some(f) => {
                                    used_fallthrough = true;
                                    let mut rc = self.reader.clone();
                                    match catch_unwind(AssertUnwindSafe(|| f(&mut rc, fmt, api))) {
                                        Ok(Ok(aux2)) => Side::Ok(vec![], aux2),
                                        Ok(Err(e2)) => Side::Err(format!("constructor: {e}; fall-through: {e2}")),
                                        Err(p) => {
                                            twin_panicked = true;
                                            Side::Err(format!("fall-through model panicked in the format library: {}", panic_message(&p)))
                                        }
                                    }
                                }
                            },
                        }
                    }
                }
            }
        };
        GetResult {
            a,
            b_ok,
            rejected,
            elements,
            expected,
            b_raw,
            used_fallthrough,
            twin_panicked,
            unread_a: ra.remaining(),
            unread_b: rb.remaining(),
            log_a: ra.log,
            log_b: rb.log,
        }
    }
}

/// Run the differential read for `Shape<D>` on (a clone of) `reader`.
pub fn diff_get<D: Decl>(shape: ShapeId, core: bool, fmt: Format, api: Api, reader: &SimReader) -> GetResult {
    let v = GetVisitor { fmt, api, reader };
    { let _ = core; <D::Shapes as shapes::ShapeSet>::dispatch::<D, _>(shape, v) }
}

/// JSON `StreamDeserializer`: many values on one stream.
pub fn diff_stream<D: Decl>(reader: &SimReader) -> GetResult {
    let mut ra = reader.clone();
    let mut rb = reader.clone();
    let a_items = catch_unwind(AssertUnwindSafe(|| codec::de_json_stream::<D>(&mut ra)));
    let mut twin_panicked = false;
    let b_items = match catch_unwind(AssertUnwindSafe(|| codec::de_json_stream::<D::Twin>(&mut rb))) {
        Ok(v) => v,
        Err(_) => {
            twin_panicked = true;
            Vec::new()
        }
    };
    // Expected: map the twin's items through the constructor, up to and including the first Err.
    let mut exp: Vec<Result<String, String>> = Vec::new();
    let mut rejected = 0;
    let mut elements = 0;
    let mut panicked: Option<String> = None;
    for it in b_items {
        match it {
            Err(e) => {
                exp.push(Err(format!("twin: {e}")));
                break;
            }
            Ok(tw) => {
                elements += 1;
                match catch_unwind(AssertUnwindSafe(|| D::lift(D::twin_unwrap(tw)).and_then(D::construct))) {
                    Err(p) => {
                        panicked = Some(panic_message(&p));
                        break;
                    }
                    Ok(Ok(t)) => exp.push(Ok(D::repr(&t.into_inner()))),
                    Ok(Err(e)) => {
                        rejected += 1;
                        exp.push(Err(format!("constructor: {e}")));
                        break;
                    }
                }
            }
        }
    }
    let fold = |v: Vec<Result<String, String>>| -> Side {
        // The stream as a whole is "Ok" iff no item failed; otherwise Err, but the prefix of good
        // items must still agree, so encode it in the error text deterministically.
        let oks: Vec<String> = v.iter().filter_map(|r| r.as_ref().ok().cloned()).collect();
        if v.iter().all(|r| r.is_ok()) {
            Side::Ok(oks, String::new())
        } else {
            Side::Ok(oks, "then-error".into())
        }
    };
    let a = match a_items {
        Err(p) => Side::Panic(panic_message(&p)),
        Ok(items) => fold(items.into_iter().map(|r| r.map(|t| D::repr(&t.into_inner()))).collect()),
    };
    let expected = match panicked {
        Some(m) => Side::Panic(m),
        None => fold(exp),
    };
    GetResult {
        a,
        b_ok: true,
        rejected,
        elements,
        expected,
        b_raw: None,
        used_fallthrough: false,
        twin_panicked,
        unread_a: ra.remaining(),
        unread_b: rb.remaining(),
        log_a: ra.log,
        log_b: rb.log,
    }
}

// ------------------------------------------------------------------------------------ building

struct BuildWith<'a, D: Decl> {
    fmt: Format,
    aux: &'a Aux,
    raws: Vec<D::TwinInner>,
    via_t: bool,
}

impl<'a, D: Decl> ShapeVisitor<D> for BuildWith<'a, D> {
    type Out = Result<Vec<u8>, String>;
    fn visit<A, B>(
        self,
        build_a: fn(Vec<D>, &Aux) -> A,
        build_b: fn(Vec<D::Twin>, &Aux) -> B,
        _split_a: fn(A) -> (Vec<D>, String),
        _split_b: fn(B) -> (Vec<D::Twin>, String),
        _fallthrough: Option<Fallthrough>,
    ) -> Self::Out
    where
        A: Serialize + DeserializeOwned,
        B: Serialize + DeserializeOwned,
    {
        if self.via_t {
            let mut els = Vec::new();
            for r in self.raws {
                els.push(D::lift(r).and_then(D::construct)?);
            }
            codec::ser_bytes(self.fmt, &build_a(els, self.aux))
        } else {
            let els: Vec<D::Twin> = self.raws.into_iter().map(D::twin_wrap).collect();
            codec::ser_bytes(self.fmt, &build_b(els, self.aux))
        }
    }
}

/// Serialize `Shape<Twin>` (or, with `via_t`, `Shape<T>` through T's real `Serialize`, which
/// requires every raw value to be accepted by the constructor) built from `raws`.
pub fn build_doc<D: Decl>(
    shape: ShapeId,
    core: bool,
    fmt: Format,
    aux: &Aux,
    raws: Vec<D::TwinInner>,
    via_t: bool,
) -> Result<Vec<u8>, String> {
    let v = BuildWith::<D> { fmt, aux, raws, via_t };
    { let _ = core; <D::Shapes as shapes::ShapeSet>::dispatch::<D, _>(shape, v) }
}


// ------------------------------------------------------------------------------------ in place

/// Outcome of `Deserialize::deserialize_in_place` over a host that already holds valid values.
pub struct InPlaceResult {
    /// What the place holds afterwards if the call returned Ok.
    pub a: Side,
    /// `Shape<Twin>` read by value through the same deserializer, elements pushed through the
    /// real constructor.
    pub expected: Side,
    /// Violations specific to the in-place path (invariant, detail).
    pub violations: Vec<(&'static str, String)>,
    pub ran: bool,
}

impl InPlaceResult {
    fn skipped() -> Self {
        InPlaceResult { a: Side::Err("skipped".into()), expected: Side::Err("skipped".into()), violations: vec![], ran: false }
    }
}

struct InPlaceVisitor<'r, D: Decl> {
    shape: ShapeId,
    fmt: Format,
    reader: &'r SimReader,
    init: D::TwinInner,
    resubmit: bool,
}

impl<'r, D: Decl> ShapeVisitor<D> for InPlaceVisitor<'r, D> {
    type Out = InPlaceResult;
    fn visit<A, B>(
        self,
        build_a: fn(Vec<D>, &Aux) -> A,
        _build_b: fn(Vec<D::Twin>, &Aux) -> B,
        split_a: fn(A) -> (Vec<D>, String),
        split_b: fn(B) -> (Vec<D::Twin>, String),
        fallthrough: Option<Fallthrough>,
    ) -> InPlaceResult
    where
        A: Serialize + DeserializeOwned,
        B: Serialize + DeserializeOwned,
    {
        if fallthrough.is_some() {
            // untagged hosts: the by-value differential already covers them; the fall-through
            // model reads through `codec::de`, whose read pattern differs from `de_in_place`.
            return InPlaceResult::skipped();
        }
        // the existing value: every newtype element holds the same valid value
        let aux = Aux::fixed();
        let mut els = Vec::new();
        for _ in 0..shapes::arity(self.shape, &aux) {
            match D::lift(self.init.clone()).and_then(D::construct) {
                Ok(t) => els.push(t),
                Err(_) => return InPlaceResult::skipped(),
            }
        }
        let mut place = match catch_unwind(AssertUnwindSafe(|| build_a(els, &aux))) {
            Ok(p) => p,
            Err(_) => return InPlaceResult::skipped(),
        };
        let mut ra = self.reader.clone();
        let mut rb = self.reader.clone();
        let fmt = self.fmt;
        let r = catch_unwind(AssertUnwindSafe(|| codec::de_in_place::<A>(fmt, &mut ra, &mut place)));
        let twin = match catch_unwind(AssertUnwindSafe(|| codec::de_like_in_place::<B>(fmt, &mut rb))) {
            Ok(t) => t,
            // the format library panicked under the twin: no reference, no verdict
            Err(_) => return InPlaceResult::skipped(),
        };
        let expected = match twin {
            Err(e) => Side::Err(format!("twin: {e}")),
            Ok(h) => {
                let (tw, aux_b) = split_b(h);
                match catch_unwind(AssertUnwindSafe(|| construct_all::<D>(tw))) {
                    Err(p) => Side::Panic(panic_message(&p)),
                    Ok((Ok(v), ..)) => Side::Ok(v, aux_b),
                    Ok((Err(e), ..)) => Side::Err(format!("constructor: {e}")),
                }
            }
        };
        let mut violations = Vec::new();
        let (els_after, aux_after) = split_a(place);
        let a = match r {
            Err(p) => {
                let m = panic_message(&p);
                violations.push(("deserialize_does_not_panic", format!("deserialize_in_place panicked: {m}")));
                Side::Panic(m)
            }
            Ok(Ok(())) => {
                let reprs: Vec<String> = els_after.iter().map(|t| t.inner_ref_repr()).collect();
                let side = Side::Ok(reprs, aux_after);
                match (&side, &expected) {
                    (Side::Ok(av, aa), Side::Ok(ev, ea)) => {
                        if av != ev || aa != ea {
                            violations.push(("in_place_result_equals_constructor_result", format!("deserialize_in_place left {av:?} / {aa:?}; the constructor applied to the carried inner values gives {ev:?} / {ea:?}")));
                        }
                    }
                    (Side::Ok(av, _), Side::Err(e)) => violations.push(("in_place_ok_only_if_constructor_accepts", format!("deserialize_in_place returned Ok and left {av:?}, but the carried value does not deserialize or the constructor rejects it: {e}"))),
                    _ => {}
                }
                side
            }
            Ok(Err(e)) => {
                if let Side::Ok(ev, _) = &expected {
                    violations.push(("in_place_ok_whenever_constructor_accepts", format!("deserialize_in_place failed ({e}) although the document carries inner values the constructor accepts: {ev:?}")));
                }
                Side::Err(e)
            }
        };
        // Whatever happened, no newtype element left in the place may be a value the constructor rejects.
        if self.resubmit && D::HAS_VALIDATION && !matches!(a, Side::Panic(_)) {
            for t in els_after {
                let inner = t.into_inner();
                let shown = D::repr(&inner);
                if let Ok(Err(e)) = catch_unwind(AssertUnwindSafe(|| D::construct(inner).map(|_| ()))) {
                    violations.push(("no_rejected_value_left_in_place", format!("after deserialize_in_place ({}) the place holds {shown}, which the constructor rejects: {e}", a.class())));
                    break;
                }
            }
        }
        InPlaceResult { a, expected, violations, ran: true }
    }
}

/// `resubmit`: also require that every newtype left in the place is accepted by the constructor
/// (only meaningful where the sanitizer is idempotent).
pub fn diff_in_place<D: Decl>(shape: ShapeId, fmt: Format, reader: &SimReader, resubmit: bool) -> InPlaceResult {
    let Some(init) = D::corpus().into_iter().find(|r| D::lift(r.clone()).and_then(D::construct).is_ok()) else {
        return InPlaceResult::skipped();
    };
    let v = InPlaceVisitor::<D> { shape, fmt, reader, init, resubmit };
    <D::Shapes as shapes::ShapeSet>::dispatch::<D, _>(shape, v)
}


// ------------------------------------------------------------------------------------ one side only

struct OneSideVisitor<'b> {
    fmt: Format,
    bytes: &'b [u8],
    twin: bool,
}

impl<'b, D: Decl> ShapeVisitor<D> for OneSideVisitor<'b> {
    type Out = &'static str;
    fn visit<A, B>(
        self,
        _build_a: fn(Vec<D>, &Aux) -> A,
        _build_b: fn(Vec<D::Twin>, &Aux) -> B,
        _split_a: fn(A) -> (Vec<D>, String),
        _split_b: fn(B) -> (Vec<D::Twin>, String),
        _fallthrough: Option<Fallthrough>,
    ) -> &'static str
    where
        A: Serialize + DeserializeOwned,
        B: Serialize + DeserializeOwned,
    {
        let ok = if self.twin {
            codec::de_bytes::<B>(self.fmt, Api::Slice, self.bytes).is_ok()
        } else {
            codec::de_bytes::<A>(self.fmt, Api::Slice, self.bytes).is_ok()
        };
        if ok {
            "ok"
        } else {
            "err"
        }
    }
}

/// Deserialize `Shape<D>` (or `Shape<Twin>`) from a slice and say whether it returned Ok or Err.
/// Used in a child process for documents that may make the callee ABORT (allocation failure),
/// which cannot be observed from inside the process.
pub fn read_one_side<D: Decl>(shape: ShapeId, fmt: Format, bytes: &[u8], twin: bool) -> &'static str {
    let v = OneSideVisitor { fmt, bytes, twin };
    <D::Shapes as shapes::ShapeSet>::dispatch::<D, _>(shape, v)
}

//! SimFormat: a stub *peer* on the serde seam. Real generated code runs on nutype's side of the
//! seam; this side is a token-stream format that (a) records the exact serializer call sequence,
//! (b) can fail at the k-th call, and (c) as a deserializer can drive a newtype's visitor through
//! methods a well-behaved format never uses ("byzantine" peer).

use std::fmt;

use serde::de::{self, DeserializeSeed, EnumAccess, MapAccess, SeqAccess, VariantAccess, Visitor};
use serde::ser::{self, Serialize};
use serde::{Deserialize as DeriveDe, Serialize as DeriveSer};

#[derive(Clone, Debug, PartialEq, Eq, DeriveSer, DeriveDe)]
pub enum Tok {
    Bool(bool),
    I8(i8),
    I16(i16),
    I32(i32),
    I64(i64),
    I128(String),
    U8(u8),
    U16(u16),
    U32(u32),
    U64(u64),
    U128(String),
    F32(u32),
    F64(u64),
    Char(char),
    Str(String),
    Bytes(Vec<u8>),
    None,
    Some,
    Unit,
    UnitStruct(String),
    UnitVariant(String, u32, String),
    NewtypeStruct(String),
    NewtypeVariant(String, u32, String),
    Seq(Option<usize>),
    SeqEnd,
    Tuple(usize),
    TupleEnd,
    TupleStruct(String, usize),
    TupleStructEnd,
    TupleVariant(String, u32, String, usize),
    TupleVariantEnd,
    Map(Option<usize>),
    MapEnd,
    Struct(String, usize),
    StructEnd,
    StructVariant(String, u32, String, usize),
    StructVariantEnd,
}

#[derive(Clone, Debug, PartialEq, Eq)]
pub struct SimErr(pub String);

impl fmt::Display for SimErr {
    fn fmt(&self, f: &mut fmt::Formatter<'_>) -> fmt::Result {
        f.write_str(&self.0)
    }
}
impl std::error::Error for SimErr {}
impl ser::Error for SimErr {
    fn custom<T: fmt::Display>(msg: T) -> Self {
        SimErr(msg.to_string())
    }
}
impl de::Error for SimErr {
    fn custom<T: fmt::Display>(msg: T) -> Self {
        SimErr(msg.to_string())
    }
}

pub const INJECTED: &str = "simformat: injected format error";

// ------------------------------------------------------------------------------------ serializer

#[derive(Clone, Debug, Default)]
pub struct TokSer {
    pub toks: Vec<Tok>,
    /// Number of serializer method calls so far (every `serialize_*`, element, key, value, end).
    pub calls: usize,
    /// Return `Err` from the call with this 0-based index.
    pub fail_at: Option<usize>,
    pub injected: bool,
    /// What `Serializer::is_human_readable()` answers (text formats: true, binary: false).
    pub human_readable: bool,
}

impl TokSer {
    pub fn new(fail_at: Option<usize>) -> TokSer {
        TokSer { toks: Vec::new(), calls: 0, fail_at, injected: false, human_readable: true }
    }
    pub fn binary(fail_at: Option<usize>) -> TokSer {
        TokSer { toks: Vec::new(), calls: 0, fail_at, injected: false, human_readable: false }
    }
    #[inline]
    fn tick(&mut self) -> Result<(), SimErr> {
        let i = self.calls;
        self.calls += 1;
        if self.fail_at == Some(i) {
            self.injected = true;
            return Err(SimErr(INJECTED.to_string()));
        }
        Ok(())
    }
    fn put(&mut self, t: Tok) -> Result<(), SimErr> {
        self.tick()?;
        self.toks.push(t);
        Ok(())
    }
}

pub fn to_tokens<T: Serialize + ?Sized>(v: &T) -> Result<Vec<Tok>, SimErr> {
    let mut s = TokSer::new(None);
    v.serialize(&mut s)?;
    Ok(s.toks)
}

pub struct Compound<'a> {
    ser: &'a mut TokSer,
    end: Tok,
}

impl<'a> ser::Serializer for &'a mut TokSer {
    type Ok = ();
    type Error = SimErr;
    type SerializeSeq = Compound<'a>;
    type SerializeTuple = Compound<'a>;
    type SerializeTupleStruct = Compound<'a>;
    type SerializeTupleVariant = Compound<'a>;
    type SerializeMap = Compound<'a>;
    type SerializeStruct = Compound<'a>;
    type SerializeStructVariant = Compound<'a>;

    fn is_human_readable(&self) -> bool {
        self.human_readable
    }

    fn serialize_bool(self, v: bool) -> Result<(), SimErr> {
        self.put(Tok::Bool(v))
    }
    fn serialize_i8(self, v: i8) -> Result<(), SimErr> {
        self.put(Tok::I8(v))
    }
    fn serialize_i16(self, v: i16) -> Result<(), SimErr> {
        self.put(Tok::I16(v))
    }
    fn serialize_i32(self, v: i32) -> Result<(), SimErr> {
        self.put(Tok::I32(v))
    }
    fn serialize_i64(self, v: i64) -> Result<(), SimErr> {
        self.put(Tok::I64(v))
    }
    fn serialize_i128(self, v: i128) -> Result<(), SimErr> {
        self.put(Tok::I128(v.to_string()))
    }
    fn serialize_u8(self, v: u8) -> Result<(), SimErr> {
        self.put(Tok::U8(v))
    }
    fn serialize_u16(self, v: u16) -> Result<(), SimErr> {
        self.put(Tok::U16(v))
    }
    fn serialize_u32(self, v: u32) -> Result<(), SimErr> {
        self.put(Tok::U32(v))
    }
    fn serialize_u64(self, v: u64) -> Result<(), SimErr> {
        self.put(Tok::U64(v))
    }
    fn serialize_u128(self, v: u128) -> Result<(), SimErr> {
        self.put(Tok::U128(v.to_string()))
    }
    fn serialize_f32(self, v: f32) -> Result<(), SimErr> {
        self.put(Tok::F32(v.to_bits()))
    }
    fn serialize_f64(self, v: f64) -> Result<(), SimErr> {
        self.put(Tok::F64(v.to_bits()))
    }
    fn serialize_char(self, v: char) -> Result<(), SimErr> {
        self.put(Tok::Char(v))
    }
    fn serialize_str(self, v: &str) -> Result<(), SimErr> {
        self.put(Tok::Str(v.to_string()))
    }
    fn serialize_bytes(self, v: &[u8]) -> Result<(), SimErr> {
        self.put(Tok::Bytes(v.to_vec()))
    }
    fn serialize_none(self) -> Result<(), SimErr> {
        self.put(Tok::None)
    }
    fn serialize_some<T: ?Sized + Serialize>(self, value: &T) -> Result<(), SimErr> {
        self.put(Tok::Some)?;
        value.serialize(self)
    }
    fn serialize_unit(self) -> Result<(), SimErr> {
        self.put(Tok::Unit)
    }
    fn serialize_unit_struct(self, name: &'static str) -> Result<(), SimErr> {
        self.put(Tok::UnitStruct(name.to_string()))
    }
    fn serialize_unit_variant(self, name: &'static str, idx: u32, variant: &'static str) -> Result<(), SimErr> {
        self.put(Tok::UnitVariant(name.to_string(), idx, variant.to_string()))
    }
    fn serialize_newtype_struct<T: ?Sized + Serialize>(self, name: &'static str, value: &T) -> Result<(), SimErr> {
        self.put(Tok::NewtypeStruct(name.to_string()))?;
        value.serialize(self)
    }
    fn serialize_newtype_variant<T: ?Sized + Serialize>(
        self,
        name: &'static str,
        idx: u32,
        variant: &'static str,
        value: &T,
    ) -> Result<(), SimErr> {
        self.put(Tok::NewtypeVariant(name.to_string(), idx, variant.to_string()))?;
        value.serialize(self)
    }
    fn serialize_seq(self, len: Option<usize>) -> Result<Compound<'a>, SimErr> {
        self.put(Tok::Seq(len))?;
        Ok(Compound { ser: self, end: Tok::SeqEnd })
    }
    fn serialize_tuple(self, len: usize) -> Result<Compound<'a>, SimErr> {
        self.put(Tok::Tuple(len))?;
        Ok(Compound { ser: self, end: Tok::TupleEnd })
    }
    fn serialize_tuple_struct(self, name: &'static str, len: usize) -> Result<Compound<'a>, SimErr> {
        self.put(Tok::TupleStruct(name.to_string(), len))?;
        Ok(Compound { ser: self, end: Tok::TupleStructEnd })
    }
    fn serialize_tuple_variant(
        self,
        name: &'static str,
        idx: u32,
        variant: &'static str,
        len: usize,
    ) -> Result<Compound<'a>, SimErr> {
        self.put(Tok::TupleVariant(name.to_string(), idx, variant.to_string(), len))?;
        Ok(Compound { ser: self, end: Tok::TupleVariantEnd })
    }
    fn serialize_map(self, len: Option<usize>) -> Result<Compound<'a>, SimErr> {
        self.put(Tok::Map(len))?;
        Ok(Compound { ser: self, end: Tok::MapEnd })
    }
    fn serialize_struct(self, name: &'static str, len: usize) -> Result<Compound<'a>, SimErr> {
        self.put(Tok::Struct(name.to_string(), len))?;
        Ok(Compound { ser: self, end: Tok::StructEnd })
    }
    fn serialize_struct_variant(
        self,
        name: &'static str,
        idx: u32,
        variant: &'static str,
        len: usize,
    ) -> Result<Compound<'a>, SimErr> {
        self.put(Tok::StructVariant(name.to_string(), idx, variant.to_string(), len))?;
        Ok(Compound { ser: self, end: Tok::StructVariantEnd })
    }
}

macro_rules! compound_elems {
    ($tr:ident, $method:ident) => {
        impl<'a> ser::$tr for Compound<'a> {
            type Ok = ();
            type Error = SimErr;
            fn $method<T: ?Sized + Serialize>(&mut self, value: &T) -> Result<(), SimErr> {
                value.serialize(&mut *self.ser)
            }
            fn end(self) -> Result<(), SimErr> {
                self.ser.put(self.end)
            }
        }
    };
}
compound_elems!(SerializeSeq, serialize_element);
compound_elems!(SerializeTuple, serialize_element);
compound_elems!(SerializeTupleStruct, serialize_field);
compound_elems!(SerializeTupleVariant, serialize_field);

impl<'a> ser::SerializeMap for Compound<'a> {
    type Ok = ();
    type Error = SimErr;
    fn serialize_key<T: ?Sized + Serialize>(&mut self, key: &T) -> Result<(), SimErr> {
        key.serialize(&mut *self.ser)
    }
    fn serialize_value<T: ?Sized + Serialize>(&mut self, value: &T) -> Result<(), SimErr> {
        value.serialize(&mut *self.ser)
    }
    fn end(self) -> Result<(), SimErr> {
        self.ser.put(self.end)
    }
}
impl<'a> ser::SerializeStruct for Compound<'a> {
    type Ok = ();
    type Error = SimErr;
    fn serialize_field<T: ?Sized + Serialize>(&mut self, key: &'static str, value: &T) -> Result<(), SimErr> {
        self.ser.put(Tok::Str(key.to_string()))?;
        value.serialize(&mut *self.ser)
    }
    fn end(self) -> Result<(), SimErr> {
        self.ser.put(self.end)
    }
}
impl<'a> ser::SerializeStructVariant for Compound<'a> {
    type Ok = ();
    type Error = SimErr;
    fn serialize_field<T: ?Sized + Serialize>(&mut self, key: &'static str, value: &T) -> Result<(), SimErr> {
        self.ser.put(Tok::Str(key.to_string()))?;
        value.serialize(&mut *self.ser)
    }
    fn end(self) -> Result<(), SimErr> {
        self.ser.put(self.end)
    }
}

// ------------------------------------------------------------------------------------ deserializer

/// What the peer does when a visitor asks for `deserialize_newtype_struct(target, ..)`.
#[derive(Clone, Copy, Debug, PartialEq, Eq, DeriveSer, DeriveDe)]
pub enum Byz {
    /// `visit_newtype_struct(self)` — what JSON, RON and MessagePack do.
    Honest,
    /// Call the visitor method of the carried value directly (`visit_u64`, `visit_str`, ...).
    Direct,
    /// `visit_seq` with the carried value as the only element.
    SeqWrap,
    /// `visit_map` with one entry `"0" -> carried value`.
    MapWrap,
    /// `visit_some(self)`.
    SomeWrap,
    /// `visit_unit()`, carried value skipped.
    Unit,
    /// `visit_none()`, carried value skipped.
    NoneV,
    /// `visit_bool(true)`, carried value skipped.
    BoolTrue,
    /// `visit_newtype_struct` with the carried value, but hand integers as the widest type and
    /// strings as borrowed/owned alternately (legal variations between formats).
    HonestWiden,
}

impl Byz {
    pub const ALL: [Byz; 9] =
        [Byz::Honest, Byz::Direct, Byz::SeqWrap, Byz::MapWrap, Byz::SomeWrap, Byz::Unit, Byz::NoneV, Byz::BoolTrue, Byz::HonestWiden];
}

pub struct TokDe<'t> {
    pub toks: &'t [Tok],
    pub pos: usize,
    /// Apply `byz` to newtype structs of this name only.
    pub target: &'t str,
    pub byz: Byz,
    pub calls: usize,
    pub fail_at: Option<usize>,
    pub injected: bool,
    pub byz_applied: usize,
    pub human_readable: bool,
}

impl<'t> TokDe<'t> {
    pub fn new(toks: &'t [Tok], target: &'t str, byz: Byz, fail_at: Option<usize>) -> TokDe<'t> {
        // Alternate between "text-like" and "binary-like" peers deterministically with the document.
        let human_readable = toks.len() % 2 == 0;
        TokDe { toks, pos: 0, target, byz, calls: 0, fail_at, injected: false, byz_applied: 0, human_readable }
    }
    fn tick(&mut self) -> Result<(), SimErr> {
        let i = self.calls;
        self.calls += 1;
        if self.fail_at == Some(i) {
            self.injected = true;
            return Err(SimErr(INJECTED.to_string()));
        }
        Ok(())
    }
    fn peek(&self) -> Result<&'t Tok, SimErr> {
        self.toks.get(self.pos).ok_or_else(|| SimErr("simformat: unexpected end of tokens".into()))
    }
    fn next(&mut self) -> Result<&'t Tok, SimErr> {
        let t = self.peek()?;
        self.pos += 1;
        Ok(t)
    }
    pub fn finished(&self) -> bool {
        self.pos >= self.toks.len()
    }
    /// Skip one complete value.
    fn skip_value(&mut self) -> Result<(), SimErr> {
        let t = self.next()?;
        match t {
            Tok::Some | Tok::NewtypeStruct(_) | Tok::NewtypeVariant(..) => self.skip_value(),
            Tok::Seq(_) => self.skip_until(&Tok::SeqEnd),
            Tok::Tuple(_) => self.skip_until(&Tok::TupleEnd),
            Tok::TupleStruct(..) => self.skip_until(&Tok::TupleStructEnd),
            Tok::TupleVariant(..) => self.skip_until(&Tok::TupleVariantEnd),
            Tok::Map(_) => self.skip_until(&Tok::MapEnd),
            Tok::Struct(..) => self.skip_until(&Tok::StructEnd),
            Tok::StructVariant(..) => self.skip_until(&Tok::StructVariantEnd),
            _ => Ok(()),
        }
    }
    fn skip_until(&mut self, end: &Tok) -> Result<(), SimErr> {
        loop {
            if self.peek()? == end {
                self.pos += 1;
                return Ok(());
            }
            self.skip_value()?;
        }
    }
}

pub fn from_tokens<'t, T: de::Deserialize<'t>>(
    toks: &'t [Tok],
    target: &'t str,
    byz: Byz,
    fail_at: Option<usize>,
) -> (Result<T, SimErr>, usize, bool, usize) {
    let mut d = TokDe::new(toks, target, byz, fail_at);
    let r = T::deserialize(&mut d);
    let r = match r {
        Ok(v) if !d.finished() => {
            let _ = v;
            Err(SimErr("simformat: trailing tokens".into()))
        }
        other => other,
    };
    (r, d.calls, d.injected, d.byz_applied)
}

struct Elems<'a, 't> {
    de: &'a mut TokDe<'t>,
    end: Tok,
}

impl<'de, 'a, 't: 'de> SeqAccess<'de> for Elems<'a, 't> {
    type Error = SimErr;
    fn next_element_seed<S: DeserializeSeed<'de>>(&mut self, seed: S) -> Result<Option<S::Value>, SimErr> {
        if *self.de.peek()? == self.end {
            return Ok(None);
        }
        seed.deserialize(&mut *self.de).map(Some)
    }
}

impl<'de, 'a, 't: 'de> MapAccess<'de> for Elems<'a, 't> {
    type Error = SimErr;
    fn next_key_seed<S: DeserializeSeed<'de>>(&mut self, seed: S) -> Result<Option<S::Value>, SimErr> {
        if *self.de.peek()? == self.end {
            return Ok(None);
        }
        seed.deserialize(&mut *self.de).map(Some)
    }
    fn next_value_seed<S: DeserializeSeed<'de>>(&mut self, seed: S) -> Result<S::Value, SimErr> {
        seed.deserialize(&mut *self.de)
    }
}

/// A one-element sequence / one-entry map wrapped around the value at the cursor.
struct Wrap<'a, 't> {
    de: &'a mut TokDe<'t>,
    state: u8,
}

impl<'de, 'a, 't: 'de> SeqAccess<'de> for Wrap<'a, 't> {
    type Error = SimErr;
    fn next_element_seed<S: DeserializeSeed<'de>>(&mut self, seed: S) -> Result<Option<S::Value>, SimErr> {
        if self.state == 0 {
            self.state = 1;
            seed.deserialize(&mut *self.de).map(Some)
        } else {
            Ok(None)
        }
    }
}

impl<'de, 'a, 't: 'de> MapAccess<'de> for Wrap<'a, 't> {
    type Error = SimErr;
    fn next_key_seed<S: DeserializeSeed<'de>>(&mut self, seed: S) -> Result<Option<S::Value>, SimErr> {
        if self.state == 0 {
            self.state = 1;
            seed.deserialize(de::value::StrDeserializer::<SimErr>::new("0")).map(Some)
        } else {
            Ok(None)
        }
    }
    fn next_value_seed<S: DeserializeSeed<'de>>(&mut self, seed: S) -> Result<S::Value, SimErr> {
        self.state = 2;
        seed.deserialize(&mut *self.de)
    }
}

struct EnumAcc<'a, 't> {
    de: &'a mut TokDe<'t>,
    variant: &'t str,
    kind: u8, // 0 unit, 1 newtype, 2 tuple, 3 struct
}

impl<'de, 'a, 't: 'de> EnumAccess<'de> for EnumAcc<'a, 't> {
    type Error = SimErr;
    type Variant = Self;
    fn variant_seed<S: DeserializeSeed<'de>>(self, seed: S) -> Result<(S::Value, Self), SimErr> {
        let v = seed.deserialize(de::value::StrDeserializer::<SimErr>::new(self.variant))?;
        Ok((v, self))
    }
}

impl<'de, 'a, 't: 'de> VariantAccess<'de> for EnumAcc<'a, 't> {
    type Error = SimErr;
    fn unit_variant(self) -> Result<(), SimErr> {
        if self.kind == 0 {
            Ok(())
        } else {
            Err(SimErr("simformat: expected unit variant".into()))
        }
    }
    fn newtype_variant_seed<S: DeserializeSeed<'de>>(self, seed: S) -> Result<S::Value, SimErr> {
        if self.kind == 1 {
            seed.deserialize(&mut *self.de)
        } else {
            Err(SimErr("simformat: expected newtype variant".into()))
        }
    }
    fn tuple_variant<V: Visitor<'de>>(self, _len: usize, visitor: V) -> Result<V::Value, SimErr> {
        if self.kind != 2 {
            return Err(SimErr("simformat: expected tuple variant".into()));
        }
        let v = visitor.visit_seq(Elems { de: &mut *self.de, end: Tok::TupleVariantEnd })?;
        expect_end(self.de, &Tok::TupleVariantEnd)?;
        Ok(v)
    }
    fn struct_variant<V: Visitor<'de>>(self, _fields: &'static [&'static str], visitor: V) -> Result<V::Value, SimErr> {
        if self.kind != 3 {
            return Err(SimErr("simformat: expected struct variant".into()));
        }
        let v = visitor.visit_map(Elems { de: &mut *self.de, end: Tok::StructVariantEnd })?;
        expect_end(self.de, &Tok::StructVariantEnd)?;
        Ok(v)
    }
}

fn expect_end(de: &mut TokDe<'_>, end: &Tok) -> Result<(), SimErr> {
    // A visitor may stop early (e.g. on its own error it never gets here); skip what is left.
    de.skip_until(end)
}

impl<'de, 'a, 't: 'de> de::Deserializer<'de> for &'a mut TokDe<'t> {
    type Error = SimErr;

    fn is_human_readable(&self) -> bool {
        self.human_readable
    }

    fn deserialize_any<V: Visitor<'de>>(self, visitor: V) -> Result<V::Value, SimErr> {
        self.tick()?;
        let widen = self.byz == Byz::HonestWiden;
        let t = self.next()?;
        match t {
            Tok::Bool(v) => visitor.visit_bool(*v),
            Tok::I8(v) => {
                if widen {
                    visitor.visit_i64(*v as i64)
                } else {
                    visitor.visit_i8(*v)
                }
            }
            Tok::I16(v) => {
                if widen {
                    visitor.visit_i64(*v as i64)
                } else {
                    visitor.visit_i16(*v)
                }
            }
            Tok::I32(v) => {
                if widen {
                    visitor.visit_i64(*v as i64)
                } else {
                    visitor.visit_i32(*v)
                }
            }
            Tok::I64(v) => visitor.visit_i64(*v),
            Tok::I128(s) => visitor.visit_i128(s.parse().map_err(|_| SimErr("bad i128 token".into()))?),
            Tok::U8(v) => {
                if widen {
                    visitor.visit_u64(*v as u64)
                } else {
                    visitor.visit_u8(*v)
                }
            }
            Tok::U16(v) => {
                if widen {
                    visitor.visit_u64(*v as u64)
                } else {
                    visitor.visit_u16(*v)
                }
            }
            Tok::U32(v) => {
                if widen {
                    visitor.visit_u64(*v as u64)
                } else {
                    visitor.visit_u32(*v)
                }
            }
            Tok::U64(v) => visitor.visit_u64(*v),
            Tok::U128(s) => visitor.visit_u128(s.parse().map_err(|_| SimErr("bad u128 token".into()))?),
            Tok::F32(b) => {
                if widen {
                    visitor.visit_f64(f32::from_bits(*b) as f64)
                } else {
                    visitor.visit_f32(f32::from_bits(*b))
                }
            }
            Tok::F64(b) => visitor.visit_f64(f64::from_bits(*b)),
            Tok::Char(c) => visitor.visit_char(*c),
            Tok::Str(s) => {
                if widen {
                    visitor.visit_string(s.clone())
                } else {
                    visitor.visit_borrowed_str(s.as_str())
                }
            }
            Tok::Bytes(b) => visitor.visit_borrowed_bytes(b.as_slice()),
            Tok::None => visitor.visit_none(),
            Tok::Some => visitor.visit_some(self),
            Tok::Unit | Tok::UnitStruct(_) => visitor.visit_unit(),
            Tok::NewtypeStruct(_) => visitor.visit_newtype_struct(self),
            Tok::Seq(_) => {
                let v = visitor.visit_seq(Elems { de: &mut *self, end: Tok::SeqEnd })?;
                expect_end(self, &Tok::SeqEnd)?;
                Ok(v)
            }
            Tok::Tuple(_) => {
                let v = visitor.visit_seq(Elems { de: &mut *self, end: Tok::TupleEnd })?;
                expect_end(self, &Tok::TupleEnd)?;
                Ok(v)
            }
            Tok::TupleStruct(..) => {
                let v = visitor.visit_seq(Elems { de: &mut *self, end: Tok::TupleStructEnd })?;
                expect_end(self, &Tok::TupleStructEnd)?;
                Ok(v)
            }
            Tok::Map(_) => {
                let v = visitor.visit_map(Elems { de: &mut *self, end: Tok::MapEnd })?;
                expect_end(self, &Tok::MapEnd)?;
                Ok(v)
            }
            Tok::Struct(..) => {
                let v = visitor.visit_map(Elems { de: &mut *self, end: Tok::StructEnd })?;
                expect_end(self, &Tok::StructEnd)?;
                Ok(v)
            }
            Tok::UnitVariant(_, _, variant) => visitor.visit_enum(EnumAcc { de: self, variant, kind: 0 }),
            Tok::NewtypeVariant(_, _, variant) => visitor.visit_enum(EnumAcc { de: self, variant, kind: 1 }),
            Tok::TupleVariant(_, _, variant, _) => visitor.visit_enum(EnumAcc { de: self, variant, kind: 2 }),
            Tok::StructVariant(_, _, variant, _) => visitor.visit_enum(EnumAcc { de: self, variant, kind: 3 }),
            Tok::SeqEnd
            | Tok::TupleEnd
            | Tok::TupleStructEnd
            | Tok::TupleVariantEnd
            | Tok::MapEnd
            | Tok::StructEnd
            | Tok::StructVariantEnd => Err(SimErr("simformat: unexpected end token".into())),
        }
    }

    fn deserialize_option<V: Visitor<'de>>(self, visitor: V) -> Result<V::Value, SimErr> {
        self.tick()?;
        match self.peek()? {
            Tok::None | Tok::Unit => {
                self.pos += 1;
                visitor.visit_none()
            }
            Tok::Some => {
                self.pos += 1;
                visitor.visit_some(self)
            }
            _ => visitor.visit_some(self),
        }
    }

    fn deserialize_newtype_struct<V: Visitor<'de>>(self, name: &'static str, visitor: V) -> Result<V::Value, SimErr> {
        self.tick()?;
        if let Tok::NewtypeStruct(_) = self.peek()? {
            self.pos += 1;
        }
        let byz = if name == self.target { self.byz } else { Byz::Honest };
        if byz != Byz::Honest && byz != Byz::HonestWiden {
            self.byz_applied += 1;
        }
        match byz {
            Byz::Honest | Byz::HonestWiden => visitor.visit_newtype_struct(self),
            Byz::Direct => self.deserialize_any(visitor),
            Byz::SeqWrap => visitor.visit_seq(Wrap { de: self, state: 0 }),
            Byz::MapWrap => visitor.visit_map(Wrap { de: self, state: 0 }),
            Byz::SomeWrap => visitor.visit_some(self),
            Byz::Unit => {
                self.skip_value()?;
                visitor.visit_unit()
            }
            Byz::NoneV => {
                self.skip_value()?;
                visitor.visit_none()
            }
            Byz::BoolTrue => {
                self.skip_value()?;
                visitor.visit_bool(true)
            }
        }
    }

    fn deserialize_enum<V: Visitor<'de>>(
        self,
        _name: &'static str,
        _variants: &'static [&'static str],
        visitor: V,
    ) -> Result<V::Value, SimErr> {
        self.deserialize_any(visitor)
    }

    fn deserialize_ignored_any<V: Visitor<'de>>(self, visitor: V) -> Result<V::Value, SimErr> {
        self.tick()?;
        self.skip_value()?;
        visitor.visit_unit()
    }

    serde::forward_to_deserialize_any! {
        bool i8 i16 i32 i64 i128 u8 u16 u32 u64 u128 f32 f64 char str string bytes byte_buf
        unit unit_struct seq tuple tuple_struct map struct identifier
    }
}

//! Sharded execution of independent simulated runs.
//!
//! A run is a pure function of (seed, scenario, run_index). Workers take run indices
//! `w, w+W, w+2W, ..`; every statistic is a commutative sum / set union / min-by-index,
//! so the worker count cannot change any output (checked by `selfcheck`).

use std::collections::BTreeMap;
use std::sync::atomic::{AtomicBool, AtomicU64, Ordering};
use std::sync::{Arc, Mutex};
use std::time::{Duration, Instant};

use serde_json::Value;

#[derive(Clone, Debug)]
pub struct Violation {
    pub run_index: u64,
    pub scenario: &'static str,
    pub decl: String,
    pub invariant: String,
    /// Cause signature computed from the failing case (used for known-finding matching
    /// and to keep "the same violation" fixed during minimisation).
    pub signature: String,
    pub detail: String,
    /// The explicit plan; executing it reproduces the violation.
    pub plan: Value,
}

pub const MAX_SAMPLES: usize = 6;
pub const MAX_VIOLATIONS_KEPT: usize = 1 << 16;
pub const KEEP_PER_SIGNATURE: u64 = 3;

#[derive(Default, Clone, Debug)]
pub struct Stats {
    pub evaluations: u64,
    pub steps: u64,
    pub counters: BTreeMap<&'static str, u64>,
    pub dyn_counters: BTreeMap<String, u64>,
    /// Hashes of non-trivial case tuples (see each scenario's `rule`).
    pub distinct: Vec<u64>,
    /// Event-log hashes ("distinct histories").
    pub histories: Vec<u64>,
    pub samples: Vec<(u64, Value)>,
    pub violations: Vec<Violation>,
    /// Occurrences per (declaration, cause signature); only the first few of each are kept in
    /// `violations`, so a flood of one (e.g. known) finding can never crowd out another.
    pub violation_counts: BTreeMap<(String, String), u64>,
    /// (run_index, event-log hash, verdict code): only filled in selfcheck mode.
    pub trace: Vec<(u64, u64, u8)>,
    pub keep_trace: bool,
}

impl Stats {
    #[inline]
    pub fn inc(&mut self, k: &'static str) {
        *self.counters.entry(k).or_insert(0) += 1;
    }
    #[inline]
    pub fn add(&mut self, k: &'static str, n: u64) {
        *self.counters.entry(k).or_insert(0) += n;
    }
    pub fn inc_dyn(&mut self, k: &str) {
        if let Some(v) = self.dyn_counters.get_mut(k) {
            *v += 1;
        } else {
            self.dyn_counters.insert(k.to_string(), 1);
        }
    }
    pub fn get(&self, k: &str) -> u64 {
        self.counters.get(k).copied().unwrap_or(0)
    }
    pub fn sample(&mut self, run_index: u64, v: impl FnOnce() -> Value) {
        if self.samples.len() < MAX_SAMPLES || self.samples.last().map(|s| s.0 > run_index).unwrap_or(false) {
            self.samples.push((run_index, v()));
            self.samples.sort_by_key(|s| s.0);
            self.samples.truncate(MAX_SAMPLES);
        }
    }
    pub fn violation(&mut self, v: Violation) {
        let c = self.violation_counts.entry((v.decl.clone(), v.signature.clone())).or_insert(0);
        *c += 1;
        if *c <= KEEP_PER_SIGNATURE {
            if self.violations.len() < MAX_VIOLATIONS_KEPT {
                self.violations.push(v);
            } else {
                self.inc("violations_dropped_over_cap");
            }
        }
    }
    pub fn compact(&mut self) {
        self.distinct.sort_unstable();
        self.distinct.dedup();
        self.histories.sort_unstable();
        self.histories.dedup();
    }
    pub fn merge(&mut self, mut o: Stats) {
        self.evaluations += o.evaluations;
        self.steps += o.steps;
        for (k, v) in o.counters {
            *self.counters.entry(k).or_insert(0) += v;
        }
        for (k, v) in o.dyn_counters {
            *self.dyn_counters.entry(k).or_insert(0) += v;
        }
        self.distinct.append(&mut o.distinct);
        self.histories.append(&mut o.histories);
        self.samples.append(&mut o.samples);
        self.samples.sort_by_key(|s| s.0);
        self.samples.truncate(MAX_SAMPLES);
        self.violations.append(&mut o.violations);
        for (k, v) in o.violation_counts {
            *self.violation_counts.entry(k).or_insert(0) += v;
        }
        self.violations.sort_by(|a, b| (a.run_index, &a.invariant).cmp(&(b.run_index, &b.invariant)));
        self.trace.append(&mut o.trace);
        self.trace.sort_unstable();
        self.compact();
    }
}

/// What a worker is doing right now; read by the liveness watchdog.
pub struct Heartbeat {
    /// 0 = idle; otherwise millis since `epoch` at which the current call started, plus 1.
    pub started_ms: AtomicU64,
    /// The plan of the call in flight, so that a hang can be written out as a replay.
    pub current: Mutex<Option<Value>>,
}

pub struct Watch {
    pub epoch: Instant,
    pub beats: Vec<Arc<Heartbeat>>,
    pub stop: AtomicBool,
}

impl Watch {
    pub fn new(workers: usize) -> Arc<Watch> {
        Arc::new(Watch {
            epoch: Instant::now(),
            beats: (0..workers)
                .map(|_| {
                    Arc::new(Heartbeat {
                        started_ms: AtomicU64::new(0),
                        current: Mutex::new(None),
                    })
                })
                .collect(),
            stop: AtomicBool::new(false),
        })
    }
}

pub struct WorkerCtx {
    pub worker: usize,
    pub watch: Arc<Watch>,
}

impl WorkerCtx {
    /// Bracket a call into generated code that must return: if it does not within the
    /// watchdog limit, `on_hang` receives the plan.
    pub fn guarded<T>(&self, plan: impl FnOnce() -> Value, f: impl FnOnce() -> T) -> T {
        let hb = &self.watch.beats[self.worker];
        *hb.current.lock().unwrap() = Some(plan());
        let now = self.watch.epoch.elapsed().as_millis() as u64 + 1;
        hb.started_ms.store(now, Ordering::SeqCst);
        let r = f();
        hb.started_ms.store(0, Ordering::SeqCst);
        r
    }
}

/// Run `n_runs` runs over `workers` threads. `on_hang(plan)` is called from the watchdog
/// thread if a guarded call exceeds `limit`; it must not return (it exits the process).
pub fn run_sharded<F, H>(
    n_runs: u64,
    workers: usize,
    keep_trace: bool,
    limit: Duration,
    on_hang: H,
    f: F,
) -> Stats
where
    F: Fn(u64, &mut Stats, &WorkerCtx) + Sync,
    H: Fn(Value) + Send + Sync,
{
    let workers = workers.max(1);
    let watch = Watch::new(workers);
    let mut total = Stats::default();
    // Debug aid: NUSIM_RUNLOG=<dir> makes every worker record (phase, run index) before each run,
    // so that a crash of the process itself (stack overflow, abort) can be attributed to a run.
    static PHASE: std::sync::atomic::AtomicU64 = std::sync::atomic::AtomicU64::new(0);
    let phase = PHASE.fetch_add(1, Ordering::SeqCst);
    let runlog = std::env::var("NUSIM_RUNLOG").ok();
    std::thread::scope(|s| {
        let w2 = watch.clone();
        let on_hang = &on_hang;
        let dog = s.spawn(move || {
            while !w2.stop.load(Ordering::SeqCst) {
                std::thread::sleep(Duration::from_millis(100));
                let now = w2.epoch.elapsed().as_millis() as u64 + 1;
                for hb in &w2.beats {
                    let st = hb.started_ms.load(Ordering::SeqCst);
                    if st != 0 && now.saturating_sub(st) > limit.as_millis() as u64 {
                        let plan = hb.current.lock().unwrap().clone().unwrap_or(Value::Null);
                        on_hang(plan);
                    }
                }
            }
        });
        let mut handles = Vec::new();
        for w in 0..workers {
            let f = &f;
            let watch = watch.clone();
            let runlog = runlog.clone();
            // Large stacks: the format libraries recurse once per nesting level (rmp-serde up to
            // 1024 levels) and the scenario binaries are compiled without optimisation, so a
            // corrupted document that nests ~1000 arrays needs more than the default 2 MiB.
            let builder = std::thread::Builder::new().name(format!("nusim-worker-{w}")).stack_size(256 << 20);
            handles.push(builder.spawn_scoped(s, move || {
                let ctx = WorkerCtx { worker: w, watch };
                let mut st = Stats {
                    keep_trace,
                    ..Stats::default()
                };
                let mut i = w as u64;
                let mut since_compact = 0u64;
                let logf = runlog.as_ref().and_then(|d| std::fs::OpenOptions::new().create(true).write(true).open(format!("{d}/worker-{w}")).ok());
                while i < n_runs {
                    if let Some(f) = &logf {
                        use std::os::unix::fs::FileExt;
                        let mut b = [0u8; 16];
                        b[..8].copy_from_slice(&phase.to_le_bytes());
                        b[8..].copy_from_slice(&i.to_le_bytes());
                        let _ = f.write_at(&b, 0);
                    }
                    // A panic here is a bug of the harness itself (calls into generated code are
                    // wrapped in catch_unwind by the scenarios): report it as such, never as a hang.
                    let r = std::panic::catch_unwind(std::panic::AssertUnwindSafe(|| f(i, &mut st, &ctx)));
                    if let Err(p) = r {
                        let plan = ctx.watch.beats[ctx.worker].current.lock().map(|g| g.clone()).unwrap_or(None);
                        eprintln!(
                            "HARNESS-ERROR: harness panicked in run {i}: {}\nplan: {}",
                            panic_message(&p),
                            plan.map(|p| p.to_string()).unwrap_or_default()
                        );
                        std::process::exit(2);
                    }
                    i += workers as u64;
                    since_compact += 1;
                    if since_compact >= 1 << 16 {
                        st.compact();
                        since_compact = 0;
                    }
                }
                st.compact();
                st
            }).expect("cannot spawn worker thread"));
        }
        for h in handles {
            let st = h.join().expect("worker thread panicked outside catch_unwind: harness bug");
            total.merge(st);
        }
        watch.stop.store(true, Ordering::SeqCst);
        dog.join().unwrap();
    });
    total
}

/// Silence the default panic hook for panics that the harness catches on purpose.
pub fn quiet_panics() {
    if std::env::var("NUSIM_LOUD").is_ok() {
        return;
    }
    std::panic::set_hook(Box::new(|_| {}));
}

pub fn panic_message(p: &Box<dyn std::any::Any + Send>) -> String {
    if let Some(s) = p.downcast_ref::<&'static str>() {
        (*s).to_string()
    } else if let Some(s) = p.downcast_ref::<String>() {
        s.clone()
    } else {
        "<non-string panic payload>".to_string()
    }
}

//! Evidence, replay files, known findings, exit codes.

use std::collections::BTreeMap;
use std::path::{Path, PathBuf};

use serde_json::{json, Map, Value};

use crate::rng::Fnv;
use crate::runner::{Stats, Violation};

pub const EXIT_OK: i32 = 0;
pub const EXIT_VIOLATION: i32 = 1;
pub const EXIT_HARNESS: i32 = 2;

#[derive(Clone, Debug)]
pub struct Config {
    pub property: &'static str,
    pub tier: String,
    pub seed: u64,
    pub workers: usize,
    pub verif_dir: PathBuf,
}

impl Config {
    pub fn from_env(property: &'static str, args: &[String]) -> Config {
        let mut tier = std::env::var("VERIF_TIER").unwrap_or_else(|_| "quick".into());
        let mut i = 0;
        while i < args.len() {
            if args[i] == "--tier" && i + 1 < args.len() {
                tier = args[i + 1].clone();
                i += 1;
            }
            i += 1;
        }
        if tier != "quick" && tier != "thorough" {
            harness_error(&format!("unknown tier {tier:?}"));
        }
        let seed = match std::env::var("VERIF_SEED") {
            Ok(s) if !s.trim().is_empty() => s.trim().parse::<u64>().unwrap_or_else(|_| {
                // Any string is accepted as a seed: hash it.
                Fnv::of_str(s.trim())
            }),
            _ => 20261002,
        };
        let workers = std::env::var("VERIF_WORKERS")
            .ok()
            .and_then(|s| s.parse().ok())
            .unwrap_or_else(|| std::thread::available_parallelism().map(|n| n.get()).unwrap_or(16).min(16));
        let verif_dir = std::env::var("VERIF_DIR").map(PathBuf::from).unwrap_or_else(|_| PathBuf::from("/verif"));
        Config {
            property,
            tier,
            seed,
            workers,
            verif_dir,
        }
    }
    pub fn thorough(&self) -> bool {
        self.tier == "thorough"
    }
}

pub fn harness_error(msg: &str) -> ! {
    eprintln!("HARNESS-ERROR: {msg}");
    std::process::exit(EXIT_HARNESS)
}

#[derive(Clone, Debug)]
pub struct KnownFinding {
    pub property: String,
    pub decl: String,
    pub signature: String,
    pub what: String,
    /// Minimised failing plan; re-executed by the check on every run.
    pub plan: Value,
}

pub struct Known {
    pub findings: Vec<KnownFinding>,
}

impl Known {
    /// Read-only at run time; a missing file means "none".
    pub fn load(verif_dir: &Path) -> Known {
        let p = verif_dir.join("known_findings.json");
        let mut findings = Vec::new();
        if let Ok(text) = std::fs::read_to_string(&p) {
            let v: Value = serde_json::from_str(&text).unwrap_or_else(|e| harness_error(&format!("known_findings.json: {e}")));
            if let Some(arr) = v.get("findings").and_then(|x| x.as_array()) {
                for f in arr {
                    let g = |k: &str| f.get(k).and_then(|x| x.as_str()).unwrap_or("").to_string();
                    findings.push(KnownFinding {
                        property: g("property"),
                        decl: g("decl"),
                        signature: g("signature"),
                        what: g("what"),
                        plan: f.get("plan").cloned().unwrap_or(Value::Null),
                    });
                }
            }
        }
        Known { findings }
    }
    pub fn for_property<'a>(&'a self, property: &'a str) -> impl Iterator<Item = &'a KnownFinding> + 'a {
        self.findings.iter().filter(move |k| k.property == property)
    }
    pub fn matches(&self, property: &str, v: &Violation) -> Option<&KnownFinding> {
        self.findings
            .iter()
            .find(|k| k.property == property && k.decl == v.decl && k.signature == v.signature)
    }
}

pub fn write_replay(cfg: &Config, v: &Violation) -> PathBuf {
    let dir = cfg.verif_dir.join("replays");
    let _ = std::fs::create_dir_all(&dir);
    let body = json!({
        "property": cfg.property,
        "scenario": v.scenario,
        "decl": v.decl,
        "invariant": v.invariant,
        "signature": v.signature,
        "detail": v.detail,
        "seed": cfg.seed,
        "run_index": v.run_index,
        "plan": v.plan,
    });
    let text = serde_json::to_string_pretty(&body).unwrap();
    let h = Fnv::of_str(&format!("{}{}{}", v.decl, v.signature, v.plan));
    let path = dir.join(format!("{}-{:016x}.json", cfg.property, h));
    if let Err(e) = std::fs::write(&path, text) {
        harness_error(&format!("cannot write replay {}: {e}", path.display()));
    }
    path
}

pub struct Outcome {
    pub new_violations: usize,
    pub known_hits: BTreeMap<String, u64>,
}

/// Group violations by (decl, signature); known ones print KNOWN-FINDING, others are
/// minimised by `minimise`, written out and printed as VIOLATION.
pub fn settle_violations(
    cfg: &Config,
    stats: &Stats,
    minimise: &dyn Fn(&Violation) -> Violation,
) -> Outcome {
    let known = Known::load(&cfg.verif_dir);
    let mut groups: BTreeMap<(String, String), Vec<&Violation>> = BTreeMap::new();
    for v in &stats.violations {
        groups.entry((v.decl.clone(), v.signature.clone())).or_default().push(v);
    }
    let mut new_violations = 0usize;
    let mut known_hits = BTreeMap::new();
    let mut reported = 0usize;
    for ((decl, sig), vs) in &groups {
        let first = vs[0];
        let occurrences = stats.violation_counts.get(&(decl.clone(), sig.clone())).copied().unwrap_or(vs.len() as u64);
        if let Some(k) = known.matches(cfg.property, first) {
            println!(
                "KNOWN-FINDING: property={} decl={} signature={} occurrences={} {}",
                cfg.property,
                decl,
                sig,
                occurrences,
                k.what
            );
            known_hits.insert(format!("{decl}/{sig}"), occurrences);
            continue;
        }
        new_violations += 1;
        if reported < 12 {
            reported += 1;
            let m = minimise(first);
            let path = write_replay(cfg, &m);
            println!(
                "VIOLATION property={} replay={} decl={} invariant={} signature={} occurrences={} detail={}",
                cfg.property,
                path.display(),
                decl,
                m.invariant,
                sig,
                occurrences,
                m.detail.replace('\n', " ").chars().take(400).collect::<String>()
            );
        }
    }
    if new_violations > reported {
        println!("({} further distinct violation signatures not written out)", new_violations - reported);
    }
    Outcome {
        new_violations,
        known_hits,
    }
}

pub struct EvidenceExtra {
    pub level: &'static str,
    pub rule: String,
    pub assumptions: Vec<String>,
    pub real_components: Vec<&'static str>,
    pub stub_components: Vec<&'static str>,
    pub extra: Map<String, Value>,
    pub exhaustive: bool,
}

pub fn write_evidence(cfg: &Config, stats: &Stats, out: &Outcome, wall_s: f64, ex: EvidenceExtra) {
    let dir = cfg.verif_dir.join("evidence");
    let _ = std::fs::create_dir_all(&dir);
    let mut counters = Map::new();
    for (k, v) in &stats.counters {
        counters.insert((*k).to_string(), json!(v));
    }
    for (k, v) in &stats.dyn_counters {
        counters.insert(k.clone(), json!(v));
    }
    let fault_fires: Map<String, Value> = counters
        .iter()
        .filter(|(k, _)| k.starts_with("fault."))
        .map(|(k, v)| (k.clone(), v.clone()))
        .collect();
    let probes: Map<String, Value> = counters
        .iter()
        .filter(|(k, _)| k.starts_with("probe."))
        .map(|(k, v)| (k.clone(), v.clone()))
        .collect();
    let outcomes: Map<String, Value> = counters
        .iter()
        .filter(|(k, _)| k.starts_with("outcome."))
        .map(|(k, v)| (k.clone(), v.clone()))
        .collect();
    let other: Map<String, Value> = counters
        .iter()
        .filter(|(k, _)| !k.starts_with("fault.") && !k.starts_with("probe.") && !k.starts_with("outcome."))
        .map(|(k, v)| (k.clone(), v.clone()))
        .collect();
    let samples: Vec<Value> = stats.samples.iter().map(|s| s.1.clone()).collect();
    let runs_per_hour = if wall_s > 0.0 {
        (stats.evaluations as f64 / wall_s * 3600.0) as u64
    } else {
        0
    };
    let mut coverage = Map::new();
    coverage.insert("evaluations".into(), json!(stats.evaluations));
    coverage.insert("distinct_nontrivial".into(), json!(stats.distinct.len()));
    coverage.insert("rule".into(), json!(ex.rule));
    coverage.insert("samples".into(), json!(samples));
    coverage.insert("exhaustive".into(), json!(ex.exhaustive));
    coverage.insert("simulated_runs_per_hour".into(), json!(runs_per_hour));
    coverage.insert(
        "seeds".into(),
        json!({"verif_seed": cfg.seed, "note": "one VERIF_SEED per invocation; every simulated run derives its own PRNG stream from (seed, scenario, run index)",
               "verif_seeds_per_hour_at_this_tier": if wall_s > 0.0 { (3600.0 / wall_s) as u64 } else { 0 }}),
    );
    coverage.insert(
        "simulated_time".into(),
        json!({"unit": "logical steps (seam calls: reads, writes, serializer/visitor calls, Unstructured pulls); nutype reads no clock, so there is no simulated wall-clock", "steps": stats.steps}),
    );
    coverage.insert("fault_fires".into(), Value::Object(fault_fires));
    coverage.insert("probes".into(), Value::Object(probes));
    coverage.insert("outcome_classes".into(), Value::Object(outcomes));
    coverage.insert("counters".into(), Value::Object(other));
    coverage.insert("distinct_histories".into(), json!(stats.histories.len()));
    coverage.insert("components_real".into(), json!(ex.real_components));
    coverage.insert("components_stub".into(), json!(ex.stub_components));
    coverage.insert("known_findings_hit".into(), json!(out.known_hits));
    coverage.insert("workers".into(), json!(cfg.workers));
    for (k, v) in ex.extra {
        coverage.insert(k, v);
    }
    let body = json!({
        "property_id": cfg.property,
        "tier": cfg.tier,
        "seed": cfg.seed,
        "level": ex.level,
        "coverage": Value::Object(coverage),
        "assumptions": ex.assumptions,
        "wall_s": (wall_s * 1000.0).round() / 1000.0,
        "violations": out.new_violations,
    });
    let path = dir.join(format!("{}.json", cfg.property));
    let tmp = dir.join(format!(".{}.json.tmp", cfg.property));
    if let Err(e) = std::fs::write(&tmp, serde_json::to_string_pretty(&body).unwrap()) {
        harness_error(&format!("cannot write evidence: {e}"));
    }
    if let Err(e) = std::fs::rename(&tmp, &path) {
        harness_error(&format!("cannot write evidence: {e}"));
    }
}

pub fn hex(b: &[u8]) -> String {
    let mut s = String::with_capacity(b.len() * 2);
    for x in b {
        s.push_str(&format!("{x:02x}"));
    }
    s
}

pub fn unhex(s: &str) -> Vec<u8> {
    let s = s.as_bytes();
    let mut out = Vec::with_capacity(s.len() / 2);
    let h = |c: u8| -> u8 {
        match c {
            b'0'..=b'9' => c - b'0',
            b'a'..=b'f' => c - b'a' + 10,
            b'A'..=b'F' => c - b'A' + 10,
            _ => 0,
        }
    };
    let mut i = 0;
    while i + 1 < s.len() {
        out.push(h(s[i]) << 4 | h(s[i + 1]));
        i += 2;
    }
    out
}

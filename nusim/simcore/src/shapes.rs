//! Container positions ("shapes") a newtype can sit in, generic over the element type so the
//! same host is used for the nutype `T` and for its serde-derived twin.

use std::fmt;
use std::marker::PhantomData;

use serde::de::{DeserializeOwned, MapAccess, Visitor};
use serde::ser::SerializeMap;
use serde::{Deserialize, Deserializer, Serialize, Serializer};

use crate::codec::{self, Api, Format};
use crate::decl::Decl;
use crate::rng::Rng;
use crate::simio::SimReader;

#[derive(Clone, Copy, Debug, PartialEq, Eq, PartialOrd, Ord, Serialize, Deserialize)]
pub enum ShapeId {
    Bare,
    VecOf,
    OptionOf,
    TupleOf,
    RecOf,
    TwoOf,
    MapVal,
    MapKey,
    EnumOf,
    Flat,
    ITag,
    ATag,
    Untagged,
    Nested,
    ArrayOf,
    BoxOf,
}

impl ShapeId {
    pub const ALL: [ShapeId; 16] = [
        ShapeId::Bare,
        ShapeId::VecOf,
        ShapeId::OptionOf,
        ShapeId::TupleOf,
        ShapeId::RecOf,
        ShapeId::TwoOf,
        ShapeId::MapVal,
        ShapeId::MapKey,
        ShapeId::EnumOf,
        ShapeId::Flat,
        ShapeId::ITag,
        ShapeId::ATag,
        ShapeId::Untagged,
        ShapeId::Nested,
        ShapeId::ArrayOf,
        ShapeId::BoxOf,
    ];
    /// The positions every declaration is exercised in; the rest only for "core" declarations
    /// (keeps monomorphisation, hence rebuild time, bounded).
    pub const BASIC: [ShapeId; 4] = [ShapeId::Bare, ShapeId::VecOf, ShapeId::RecOf, ShapeId::OptionOf];
    pub fn name(self) -> &'static str {
        match self {
            ShapeId::Bare => "bare",
            ShapeId::VecOf => "vec",
            ShapeId::OptionOf => "option",
            ShapeId::TupleOf => "tuple",
            ShapeId::RecOf => "struct_field",
            ShapeId::TwoOf => "two_fields",
            ShapeId::MapVal => "map_value",
            ShapeId::MapKey => "map_key",
            ShapeId::EnumOf => "enum_variant",
            ShapeId::Flat => "serde_flatten",
            ShapeId::ITag => "internally_tagged",
            ShapeId::ATag => "adjacently_tagged",
            ShapeId::Untagged => "untagged",
            ShapeId::Nested => "vec_option_struct",
            ShapeId::ArrayOf => "array2",
            ShapeId::BoxOf => "box",
        }
    }
}

// ------------------------------------------------------------------------------------ hosts

#[derive(Serialize, Deserialize, Debug)]
pub struct Rec<X> {
    pub id: u32,
    pub val: X,
    pub note: String,
}

#[derive(Serialize, Deserialize, Debug)]
pub struct Two<X> {
    pub a: X,
    pub w: u8,
    pub b: X,
}

#[derive(Serialize, Deserialize, Debug)]
pub enum En<X> {
    A(X),
    B { v: X, w: u8 },
    C,
    D(u8, X),
}

#[derive(Serialize, Deserialize, Debug)]
pub struct FlatHost<X> {
    pub id: u32,
    #[serde(flatten)]
    pub rest: FlatRest<X>,
}

#[derive(Serialize, Deserialize, Debug)]
pub struct FlatRest<X> {
    pub val: X,
    pub opt: Option<X>,
}

#[derive(Serialize, Deserialize, Debug)]
#[serde(tag = "t")]
pub enum ITag<X> {
    A(Rec<X>),
    B,
}

#[derive(Serialize, Deserialize, Debug)]
#[serde(tag = "t", content = "c")]
pub enum ATag<X> {
    A(X),
    B(Vec<X>),
    C,
}

#[derive(Serialize, Deserialize, Debug)]
pub struct Marker {
    pub nusim_marker: bool,
}

/// Untagged host. When `A(X)` fails (structurally or because the newtype rejects the value),
/// serde falls through to `M`; the oracle models exactly that with `UnRest`.
#[derive(Serialize, Deserialize, Debug)]
#[serde(untagged)]
pub enum Un<X> {
    A(X),
    M(Marker),
}

#[derive(Serialize, Deserialize, Debug)]
#[serde(untagged)]
pub enum UnRest {
    M(Marker),
}

/// A map that keeps document order and needs no `Ord`/`Hash` on its keys: the newtype is
/// driven through the format's *map key* path exactly as with `BTreeMap<X, V>`.
#[derive(Debug)]
pub struct PairSeq<K, V>(pub Vec<(K, V)>);

impl<K: Serialize, V: Serialize> Serialize for PairSeq<K, V> {
    fn serialize<S: Serializer>(&self, s: S) -> Result<S::Ok, S::Error> {
        let mut m = s.serialize_map(Some(self.0.len()))?;
        for (k, v) in &self.0 {
            m.serialize_entry(k, v)?;
        }
        m.end()
    }
}

impl<'de, K: Deserialize<'de>, V: Deserialize<'de>> Deserialize<'de> for PairSeq<K, V> {
    fn deserialize<D: Deserializer<'de>>(d: D) -> Result<Self, D::Error> {
        struct Vis<K, V>(PhantomData<(K, V)>);
        impl<'de, K: Deserialize<'de>, V: Deserialize<'de>> Visitor<'de> for Vis<K, V> {
            type Value = PairSeq<K, V>;
            fn expecting(&self, f: &mut fmt::Formatter) -> fmt::Result {
                f.write_str("a map")
            }
            fn visit_map<A: MapAccess<'de>>(self, mut a: A) -> Result<Self::Value, A::Error> {
                let mut out = Vec::new();
                while let Some(k) = a.next_key::<K>()? {
                    let v = a.next_value::<V>()?;
                    out.push((k, v));
                }
                Ok(PairSeq(out))
            }
        }
        d.deserialize_map(Vis(PhantomData))
    }
}

// ------------------------------------------------------------------------------------ aux data

/// Everything in a host that is not the newtype element; drawn while building the plan.
#[derive(Clone, Debug, Serialize, Deserialize)]
pub struct Aux {
    pub id: u32,
    pub note: String,
    pub keys: Vec<String>,
    pub variant: u8,
    pub w: u8,
    pub nones: Vec<bool>,
    pub n: usize,
}

impl Aux {
    pub fn draw(rng: &mut Rng) -> Aux {
        let n = match rng.below(6) {
            0 => 0,
            1 => 1,
            _ => rng.range_usize(1, 4),
        };
        let notes = ["", "x", "note with \"quotes\" and \\", "ünï", "]}),"];
        Aux {
            id: if rng.chance(1, 4) { u32::MAX } else { rng.below(1000) as u32 },
            note: rng.pick(&notes).to_string(),
            keys: (0..4).map(|i| format!("k{}{}", i, rng.below(10))).collect(),
            variant: rng.below(4) as u8,
            w: rng.below(256) as u8,
            nones: (0..4).map(|_| rng.chance(1, 4)).collect(),
            n,
        }
    }
    pub fn fixed() -> Aux {
        Aux { id: 7, note: "n".into(), keys: vec!["k0".into(), "k1".into(), "k2".into(), "k3".into()], variant: 0, w: 9, nones: vec![false, true, false, false], n: 3 }
    }
}

/// How many newtype elements the host built from `aux` contains.
pub fn arity(shape: ShapeId, aux: &Aux) -> usize {
    match shape {
        ShapeId::Bare | ShapeId::TupleOf | ShapeId::RecOf | ShapeId::BoxOf => 1,
        ShapeId::VecOf | ShapeId::MapVal | ShapeId::MapKey => aux.n,
        ShapeId::OptionOf => (aux.n > 0) as usize,
        ShapeId::TwoOf | ShapeId::ArrayOf => 2,
        ShapeId::EnumOf => (aux.variant % 4 != 2) as usize,
        ShapeId::Flat => 1 + (aux.n % 2),
        ShapeId::ITag => (aux.variant % 2 == 0) as usize,
        ShapeId::ATag => match aux.variant % 3 {
            0 => 1,
            1 => aux.n,
            _ => 0,
        },
        ShapeId::Untagged => (aux.variant % 4 != 3) as usize,
        ShapeId::Nested => aux.n.min(aux.nones.len()) - aux.nones.iter().take(aux.n).filter(|b| **b).count(),
    }
}

// ------------------------------------------------------------------------------------ visitor

pub type Fallthrough = fn(&mut SimReader, Format, Api) -> Result<String, String>;

/// Callback receiving, for the chosen shape, the two host types and their build/split functions.
pub trait ShapeVisitor<D: Decl> {
    type Out;
    fn visit<A, B>(
        self,
        build_a: fn(Vec<D>, &Aux) -> A,
        build_b: fn(Vec<D::Twin>, &Aux) -> B,
        split_a: fn(A) -> (Vec<D>, String),
        split_b: fn(B) -> (Vec<D::Twin>, String),
        fallthrough: Option<Fallthrough>,
    ) -> Self::Out
    where
        A: Serialize + DeserializeOwned,
        B: Serialize + DeserializeOwned;
}

fn one<X>(mut v: Vec<X>) -> X {
    v.remove(0)
}

fn b_bare<X>(v: Vec<X>, _a: &Aux) -> X {
    one(v)
}
fn s_bare<X>(h: X) -> (Vec<X>, String) {
    (vec![h], String::new())
}
fn b_vec<X>(v: Vec<X>, _a: &Aux) -> Vec<X> {
    v
}
fn s_vec<X>(h: Vec<X>) -> (Vec<X>, String) {
    let n = h.len();
    (h, format!("n={n}"))
}
fn b_opt<X>(mut v: Vec<X>, _a: &Aux) -> Option<X> {
    v.pop()
}
fn s_opt<X>(h: Option<X>) -> (Vec<X>, String) {
    let tag = h.is_some();
    (h.into_iter().collect(), format!("some={tag}"))
}
fn b_tuple<X>(v: Vec<X>, a: &Aux) -> (u8, X, String) {
    (a.w, one(v), a.note.clone())
}
fn s_tuple<X>(h: (u8, X, String)) -> (Vec<X>, String) {
    (vec![h.1], format!("{}|{:?}", h.0, h.2))
}
fn b_rec<X>(v: Vec<X>, a: &Aux) -> Rec<X> {
    Rec { id: a.id, val: one(v), note: a.note.clone() }
}
fn s_rec<X>(h: Rec<X>) -> (Vec<X>, String) {
    (vec![h.val], format!("{}|{:?}", h.id, h.note))
}
fn b_two<X>(mut v: Vec<X>, a: &Aux) -> Two<X> {
    let b = v.pop().unwrap();
    let x = v.pop().unwrap();
    Two { a: x, w: a.w, b }
}
fn s_two<X>(h: Two<X>) -> (Vec<X>, String) {
    (vec![h.a, h.b], format!("{}", h.w))
}
// NOTE: the map-value host keeps EVERY entry in document order. A `BTreeMap<String, X>` host
// silently drops the earlier of two entries with the same key after having deserialized it, so the
// twin side could "forget" a value the constructor rejects while T had already failed on it: the
// oracle would then demand Ok where Err is right (false alarm seen with seed 3, RON document
// {"k00":("\t\t\u{2007}"),"k00":("ı"),"":("}")}; corrected here, see DESIGN.md §8).
fn b_mapval<X>(v: Vec<X>, a: &Aux) -> PairSeq<String, X> {
    PairSeq(v.into_iter().enumerate().map(|(i, x)| (a.keys[i % a.keys.len()].clone(), x)).collect())
}
fn s_mapval<X>(h: PairSeq<String, X>) -> (Vec<X>, String) {
    let keys: Vec<String> = h.0.iter().map(|p| p.0.clone()).collect();
    (h.0.into_iter().map(|p| p.1).collect(), keys.join(","))
}
fn b_mapkey<X>(v: Vec<X>, a: &Aux) -> PairSeq<X, u32> {
    PairSeq(v.into_iter().enumerate().map(|(i, x)| (x, a.id.wrapping_add(i as u32))).collect())
}
fn s_mapkey<X>(h: PairSeq<X, u32>) -> (Vec<X>, String) {
    let vals: Vec<String> = h.0.iter().map(|p| p.1.to_string()).collect();
    (h.0.into_iter().map(|p| p.0).collect(), vals.join(","))
}
fn b_enum<X>(mut v: Vec<X>, a: &Aux) -> En<X> {
    match a.variant % 4 {
        0 => En::A(v.pop().unwrap()),
        1 => En::B { v: v.pop().unwrap(), w: a.w },
        2 => En::C,
        _ => En::D(a.w, v.pop().unwrap()),
    }
}
fn s_enum<X>(h: En<X>) -> (Vec<X>, String) {
    match h {
        En::A(x) => (vec![x], "A".into()),
        En::B { v, w } => (vec![v], format!("B{w}")),
        En::C => (vec![], "C".into()),
        En::D(w, x) => (vec![x], format!("D{w}")),
    }
}
fn b_flat<X>(mut v: Vec<X>, a: &Aux) -> FlatHost<X> {
    let opt = if v.len() > 1 { v.pop() } else { None };
    FlatHost { id: a.id, rest: FlatRest { val: one(v), opt } }
}
fn s_flat<X>(h: FlatHost<X>) -> (Vec<X>, String) {
    let mut v = vec![h.rest.val];
    let has = h.rest.opt.is_some();
    v.extend(h.rest.opt);
    (v, format!("{}|{}", h.id, has))
}
fn b_itag<X>(v: Vec<X>, a: &Aux) -> ITag<X> {
    if a.variant % 2 == 0 {
        ITag::A(b_rec(v, a))
    } else {
        ITag::B
    }
}
fn s_itag<X>(h: ITag<X>) -> (Vec<X>, String) {
    match h {
        ITag::A(r) => {
            let (v, s) = s_rec(r);
            (v, format!("A{s}"))
        }
        ITag::B => (vec![], "B".into()),
    }
}
fn b_atag<X>(v: Vec<X>, a: &Aux) -> ATag<X> {
    match a.variant % 3 {
        0 => ATag::A(one(v)),
        1 => ATag::B(v),
        _ => ATag::C,
    }
}
fn s_atag<X>(h: ATag<X>) -> (Vec<X>, String) {
    match h {
        ATag::A(x) => (vec![x], "A".into()),
        ATag::B(v) => {
            let n = v.len();
            (v, format!("B{n}"))
        }
        ATag::C => (vec![], "C".into()),
    }
}
fn b_un<X>(v: Vec<X>, a: &Aux) -> Un<X> {
    if a.variant % 4 != 3 {
        Un::A(one(v))
    } else {
        Un::M(Marker { nusim_marker: a.w % 2 == 0 })
    }
}
fn s_un<X>(h: Un<X>) -> (Vec<X>, String) {
    match h {
        Un::A(x) => (vec![x], "A".into()),
        Un::M(m) => (vec![], format!("M{}", m.nusim_marker)),
    }
}
fn un_fallthrough(r: &mut SimReader, f: Format, a: Api) -> Result<String, String> {
    codec::de::<UnRest>(f, a, r).map(|u| match u {
        UnRest::M(m) => format!("M{}", m.nusim_marker),
    })
}
fn b_nested<X>(v: Vec<X>, a: &Aux) -> Vec<Option<Rec<X>>> {
    let mut it = v.into_iter();
    let mut out = Vec::new();
    for i in 0..a.n.min(a.nones.len()) {
        if a.nones[i] {
            out.push(None);
        } else {
            out.push(Some(Rec { id: a.id.wrapping_add(i as u32), val: it.next().unwrap(), note: a.note.clone() }));
        }
    }
    out
}
fn s_nested<X>(h: Vec<Option<Rec<X>>>) -> (Vec<X>, String) {
    let mut aux = String::new();
    let mut v = Vec::new();
    for e in h {
        match e {
            None => aux.push_str("N;"),
            Some(r) => {
                aux.push_str(&format!("{}|{:?};", r.id, r.note));
                v.push(r.val);
            }
        }
    }
    (v, aux)
}
fn b_arr<X>(mut v: Vec<X>, _a: &Aux) -> [X; 2] {
    let b = v.pop().unwrap();
    let a = v.pop().unwrap();
    [a, b]
}
fn s_arr<X>(h: [X; 2]) -> (Vec<X>, String) {
    let [a, b] = h;
    (vec![a, b], String::new())
}
fn b_box<X>(v: Vec<X>, _a: &Aux) -> Box<X> {
    Box::new(one(v))
}
fn s_box<X>(h: Box<X>) -> (Vec<X>, String) {
    (vec![*h], String::new())
}

pub fn dispatch<D: Decl, V: ShapeVisitor<D>>(shape: ShapeId, v: V) -> V::Out {
    match shape {
        ShapeId::Bare => v.visit::<D, D::Twin>(b_bare, b_bare, s_bare, s_bare, None),
        ShapeId::VecOf => v.visit::<Vec<D>, Vec<D::Twin>>(b_vec, b_vec, s_vec, s_vec, None),
        ShapeId::OptionOf => v.visit::<Option<D>, Option<D::Twin>>(b_opt, b_opt, s_opt, s_opt, None),
        ShapeId::TupleOf => v.visit::<(u8, D, String), (u8, D::Twin, String)>(b_tuple, b_tuple, s_tuple, s_tuple, None),
        ShapeId::RecOf => v.visit::<Rec<D>, Rec<D::Twin>>(b_rec, b_rec, s_rec, s_rec, None),
        ShapeId::TwoOf => v.visit::<Two<D>, Two<D::Twin>>(b_two, b_two, s_two, s_two, None),
        ShapeId::MapVal => {
            v.visit::<PairSeq<String, D>, PairSeq<String, D::Twin>>(b_mapval, b_mapval, s_mapval, s_mapval, None)
        }
        ShapeId::MapKey => v.visit::<PairSeq<D, u32>, PairSeq<D::Twin, u32>>(b_mapkey, b_mapkey, s_mapkey, s_mapkey, None),
        ShapeId::EnumOf => v.visit::<En<D>, En<D::Twin>>(b_enum, b_enum, s_enum, s_enum, None),
        ShapeId::Flat => v.visit::<FlatHost<D>, FlatHost<D::Twin>>(b_flat, b_flat, s_flat, s_flat, None),
        ShapeId::ITag => v.visit::<ITag<D>, ITag<D::Twin>>(b_itag, b_itag, s_itag, s_itag, None),
        ShapeId::ATag => v.visit::<ATag<D>, ATag<D::Twin>>(b_atag, b_atag, s_atag, s_atag, None),
        ShapeId::Untagged => v.visit::<Un<D>, Un<D::Twin>>(b_un, b_un, s_un, s_un, Some(un_fallthrough)),
        ShapeId::Nested => {
            v.visit::<Vec<Option<Rec<D>>>, Vec<Option<Rec<D::Twin>>>>(b_nested, b_nested, s_nested, s_nested, None)
        }
        ShapeId::ArrayOf => v.visit::<[D; 2], [D::Twin; 2]>(b_arr, b_arr, s_arr, s_arr, None),
        ShapeId::BoxOf => v.visit::<Box<D>, Box<D::Twin>>(b_box, b_box, s_box, s_box, None),
    }
}

/// Only the four basic shapes (for declarations outside the "core" set).
pub fn dispatch_basic<D: Decl, V: ShapeVisitor<D>>(shape: ShapeId, v: V) -> V::Out {
    match shape {
        ShapeId::VecOf => v.visit::<Vec<D>, Vec<D::Twin>>(b_vec, b_vec, s_vec, s_vec, None),
        ShapeId::OptionOf => v.visit::<Option<D>, Option<D::Twin>>(b_opt, b_opt, s_opt, s_opt, None),
        ShapeId::RecOf => v.visit::<Rec<D>, Rec<D::Twin>>(b_rec, b_rec, s_rec, s_rec, None),
        _ => v.visit::<D, D::Twin>(b_bare, b_bare, s_bare, s_bare, None),
    }
}


/// Which container positions a declaration is exercised in. Selected at the type level
/// (`Decl::Shapes`) so that only the chosen set is monomorphised.
pub trait ShapeSet {
    const LIST: &'static [ShapeId];
    fn dispatch<D: Decl, V: ShapeVisitor<D>>(shape: ShapeId, v: V) -> V::Out;
}

/// All 16 positions ("core" declarations).
pub struct AllShapes;
/// bare / Vec / struct field / Option.
pub struct BasicShapes;
/// bare / Vec (the generated declaration matrix).
pub struct MinShapes;

impl ShapeSet for AllShapes {
    const LIST: &'static [ShapeId] = &ShapeId::ALL;
    fn dispatch<D: Decl, V: ShapeVisitor<D>>(shape: ShapeId, v: V) -> V::Out {
        dispatch::<D, V>(shape, v)
    }
}
impl ShapeSet for BasicShapes {
    const LIST: &'static [ShapeId] = &ShapeId::BASIC;
    fn dispatch<D: Decl, V: ShapeVisitor<D>>(shape: ShapeId, v: V) -> V::Out {
        dispatch_basic::<D, V>(shape, v)
    }
}
impl ShapeSet for MinShapes {
    const LIST: &'static [ShapeId] = &[ShapeId::Bare, ShapeId::VecOf];
    fn dispatch<D: Decl, V: ShapeVisitor<D>>(shape: ShapeId, v: V) -> V::Out {
        match shape {
            ShapeId::VecOf => v.visit::<Vec<D>, Vec<D::Twin>>(b_vec, b_vec, s_vec, s_vec, None),
            _ => v.visit::<D, D::Twin>(b_bare, b_bare, s_bare, s_bare, None),
        }
    }
}

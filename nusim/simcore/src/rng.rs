//! The only source of randomness in the simulator.
//!
//! `VERIF_SEED` -> SplitMix64 -> one Xoshiro256** stream per (scenario, run index).
//! Nothing else (clock, addresses, hash-map order, thread identity) may influence a plan.

#[derive(Clone, Debug)]
pub struct SplitMix64(pub u64);

impl SplitMix64 {
    #[inline]
    pub fn next(&mut self) -> u64 {
        self.0 = self.0.wrapping_add(0x9E37_79B9_7F4A_7C15);
        let mut z = self.0;
        z = (z ^ (z >> 30)).wrapping_mul(0xBF58_476D_1CE4_E5B9);
        z = (z ^ (z >> 27)).wrapping_mul(0x94D0_49BB_1331_11EB);
        z ^ (z >> 31)
    }
}

/// Xoshiro256** seeded through SplitMix64.
#[derive(Clone, Debug)]
pub struct Rng {
    s: [u64; 4],
}

impl Rng {
    pub fn from_u64(seed: u64) -> Self {
        let mut sm = SplitMix64(seed);
        let s = [sm.next(), sm.next(), sm.next(), sm.next()];
        Rng { s }
    }

    /// The stream for one run of one scenario: a pure function of the three integers.
    pub fn for_run(seed: u64, scenario: u64, run_index: u64) -> Self {
        let mut sm = SplitMix64(seed ^ 0xD1B5_4A32_D192_ED03);
        let a = sm.next() ^ scenario.wrapping_mul(0xA24B_AED4_963E_E407);
        let mut sm2 = SplitMix64(a);
        let b = sm2.next() ^ run_index.wrapping_mul(0x9FB2_1C65_1E98_DF25);
        Rng::from_u64(b)
    }

    #[inline]
    pub fn next_u64(&mut self) -> u64 {
        let result = self.s[1].wrapping_mul(5).rotate_left(7).wrapping_mul(9);
        let t = self.s[1] << 17;
        self.s[2] ^= self.s[0];
        self.s[3] ^= self.s[1];
        self.s[1] ^= self.s[2];
        self.s[0] ^= self.s[3];
        self.s[2] ^= t;
        self.s[3] = self.s[3].rotate_left(45);
        result
    }

    #[inline]
    pub fn next_u32(&mut self) -> u32 {
        (self.next_u64() >> 32) as u32
    }

    /// Uniform in `0..n` (n > 0). Multiply-shift; bias is irrelevant here.
    #[inline]
    pub fn below(&mut self, n: u64) -> u64 {
        debug_assert!(n > 0);
        (((self.next_u64() as u128) * (n as u128)) >> 64) as u64
    }

    #[inline]
    pub fn usize_below(&mut self, n: usize) -> usize {
        self.below(n as u64) as usize
    }

    /// Uniform in `lo..=hi`.
    #[inline]
    pub fn range(&mut self, lo: u64, hi: u64) -> u64 {
        debug_assert!(lo <= hi);
        if lo == 0 && hi == u64::MAX {
            return self.next_u64();
        }
        lo + self.below(hi - lo + 1)
    }

    #[inline]
    pub fn range_usize(&mut self, lo: usize, hi: usize) -> usize {
        self.range(lo as u64, hi as u64) as usize
    }

    /// True with probability `num/den`.
    #[inline]
    pub fn chance(&mut self, num: u64, den: u64) -> bool {
        self.below(den) < num
    }

    #[inline]
    pub fn pick<'a, T>(&mut self, xs: &'a [T]) -> &'a T {
        &xs[self.usize_below(xs.len())]
    }

    /// Index drawn according to integer weights.
    pub fn weighted(&mut self, weights: &[u32]) -> usize {
        let total: u64 = weights.iter().map(|w| *w as u64).sum();
        let mut x = self.below(total.max(1));
        for (i, w) in weights.iter().enumerate() {
            if x < *w as u64 {
                return i;
            }
            x -= *w as u64;
        }
        weights.len() - 1
    }

    pub fn fill(&mut self, buf: &mut [u8]) {
        for chunk in buf.chunks_mut(8) {
            let v = self.next_u64().to_le_bytes();
            chunk.copy_from_slice(&v[..chunk.len()]);
        }
    }
}

/// FNV-1a, fixed key: the event-log hash. Never `DefaultHasher`/`RandomState`.
#[derive(Clone, Copy, Debug)]
pub struct Fnv(pub u64);

impl Default for Fnv {
    fn default() -> Self {
        Fnv(0xcbf2_9ce4_8422_2325)
    }
}

impl Fnv {
    #[inline]
    pub fn bytes(&mut self, b: &[u8]) {
        for x in b {
            self.0 ^= *x as u64;
            self.0 = self.0.wrapping_mul(0x0000_0100_0000_01B3);
        }
    }
    #[inline]
    pub fn u64(&mut self, v: u64) {
        self.bytes(&v.to_le_bytes());
    }
    #[inline]
    pub fn str(&mut self, s: &str) {
        self.bytes(s.as_bytes());
        self.bytes(&[0xff]);
    }
    pub fn of_str(s: &str) -> u64 {
        let mut f = Fnv::default();
        f.str(s);
        f.0
    }
}

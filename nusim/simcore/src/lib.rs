//! nusim core: seeded PRNG, sharded runner, simulated I/O seams, evidence/replay plumbing.
pub mod codec;
pub mod decl;
pub mod diff;
pub mod report;
pub mod rng;
pub mod runner;
pub mod serdiff;
pub mod shapes;
pub mod simformat;
pub mod simio;
pub mod tokdiff;

//! nusim core: seeded PRNG, sharded runner, simulated I/O seams, evidence/replay plumbing.
pub mod report;
pub mod rng;
pub mod runner;

//! The three real formats behind one function pair, over the simulated reader/writer.

use std::io::Write;

use serde::de::DeserializeOwned;
use serde::{Deserialize, Serialize};

use crate::simio::{SimReader, SimWriter};

#[derive(Clone, Copy, Debug, PartialEq, Eq, PartialOrd, Ord, Serialize, Deserialize)]
pub enum Format {
    Json,
    Ron,
    Msgpack,
    /// JSON written with `to_writer_pretty` (read as JSON).
    JsonPretty,
    /// RON with the `unwrap_newtypes` and `implicit_some` extensions on both sides.
    RonExt,
    /// RON written with `PrettyConfig::struct_names(true)`: newtype structs carry their NAME.
    RonNamed,
    /// MessagePack with structs as maps (`with_struct_map`).
    MsgpackNamed,
}

impl Format {
    pub const ALL: [Format; 7] =
        [Format::Json, Format::Ron, Format::Msgpack, Format::JsonPretty, Format::RonExt, Format::RonNamed, Format::MsgpackNamed];
    /// The three wire formats in their default configuration.
    pub const BASE: [Format; 3] = [Format::Json, Format::Ron, Format::Msgpack];
    pub fn name(self) -> &'static str {
        match self {
            Format::Json => "json",
            Format::Ron => "ron",
            Format::Msgpack => "msgpack",
            Format::JsonPretty => "json_pretty",
            Format::RonExt => "ron_unwrap_newtypes_implicit_some",
            Format::RonNamed => "ron_struct_names",
            Format::MsgpackNamed => "msgpack_struct_map",
        }
    }
    pub fn base(self) -> Format {
        match self {
            Format::Json | Format::JsonPretty => Format::Json,
            Format::Ron | Format::RonExt | Format::RonNamed => Format::Ron,
            Format::Msgpack | Format::MsgpackNamed => Format::Msgpack,
        }
    }
    /// In these configurations a newtype struct is encoded exactly as its inner value.
    pub fn newtype_transparent_bytes(self) -> bool {
        matches!(self, Format::Json | Format::JsonPretty | Format::Msgpack | Format::MsgpackNamed | Format::RonExt)
    }
}

fn ron_ext() -> ron::Options {
    ron::Options::default()
        .with_default_extension(ron::extensions::Extensions::UNWRAP_NEWTYPES)
        .with_default_extension(ron::extensions::Extensions::IMPLICIT_SOME)
}

#[derive(Clone, Copy, Debug, PartialEq, Eq, PartialOrd, Ord, Serialize, Deserialize)]
pub enum Api {
    /// `from_reader` / `from_read`: the format pulls from the reader while the visitor runs.
    Reader,
    /// Read everything first (retrying EINTR), then `from_slice` / `from_bytes`.
    Slice,
    /// As `Slice`, then `from_str` (JSON, RON; falls back to `Slice` for MessagePack).
    Str,
    /// Like `Reader` for by-value deserialization; callers additionally run
    /// `Deserialize::deserialize_in_place` over an existing value (see `diff::diff_in_place`).
    InPlace,
    /// JSON only: parse into `serde_json::Value` first, then `from_value` (a deserializer that
    /// can never lend borrowed data); other formats fall back to `Slice`.
    Value,
}

/// Deserialize one `T` from the simulated reader.
pub fn de<T: DeserializeOwned>(fmt: Format, api: Api, r: &mut SimReader) -> Result<T, String> {
    match (fmt, api) {
        (Format::Json | Format::JsonPretty, Api::Reader | Api::InPlace) => serde_json::from_reader(&mut *r).map_err(|e| e.to_string()),
        (Format::Ron | Format::RonNamed, Api::Reader | Api::InPlace) => ron::de::from_reader(&mut *r).map_err(|e| e.to_string()),
        (Format::RonExt, Api::Reader | Api::InPlace) => ron_ext().from_reader(&mut *r).map_err(|e| e.to_string()),
        (Format::Msgpack | Format::MsgpackNamed, Api::Reader | Api::InPlace) => rmp_serde::from_read(&mut *r).map_err(|e| e.to_string()),
        (_, _) => {
            let bytes = r.slurp().map_err(|e| format!("io: {e}"))?;
            de_bytes(fmt, api, &bytes)
        }
    }
}

/// `Deserialize::deserialize_in_place` over an existing value, reading from the simulated reader.
pub fn de_in_place<T: DeserializeOwned>(fmt: Format, r: &mut SimReader, place: &mut T) -> Result<(), String> {
    match fmt.base() {
        Format::Json => {
            let mut de = serde_json::Deserializer::from_reader(&mut *r);
            T::deserialize_in_place(&mut de, place).map_err(|e| e.to_string())?;
            de.end().map_err(|e| e.to_string())
        }
        Format::Ron => {
            let bytes = r.slurp().map_err(|e| format!("io: {e}"))?;
            let mut de = if fmt == Format::RonExt {
                ron::de::Deserializer::from_bytes_with_options(&bytes, ron_ext()).map_err(|e| e.to_string())?
            } else {
                ron::de::Deserializer::from_bytes(&bytes).map_err(|e| e.to_string())?
            };
            T::deserialize_in_place(&mut de, place).map_err(|e| e.to_string())?;
            de.end().map_err(|e| e.to_string())
        }
        _ => {
            let mut de = rmp_serde::Deserializer::new(&mut *r);
            T::deserialize_in_place(&mut de, place).map_err(|e| e.to_string())
        }
    }
}

/// By-value deserialization through exactly the deserializer construction and read pattern of
/// `de_in_place` (so that an injected I/O fault lands at the same call for both).
pub fn de_like_in_place<T: DeserializeOwned>(fmt: Format, r: &mut SimReader) -> Result<T, String> {
    match fmt.base() {
        Format::Json => {
            let mut de = serde_json::Deserializer::from_reader(&mut *r);
            let v = T::deserialize(&mut de).map_err(|e| e.to_string())?;
            de.end().map_err(|e| e.to_string())?;
            Ok(v)
        }
        Format::Ron => {
            let bytes = r.slurp().map_err(|e| format!("io: {e}"))?;
            let mut de = if fmt == Format::RonExt {
                ron::de::Deserializer::from_bytes_with_options(&bytes, ron_ext()).map_err(|e| e.to_string())?
            } else {
                ron::de::Deserializer::from_bytes(&bytes).map_err(|e| e.to_string())?
            };
            let v = T::deserialize(&mut de).map_err(|e| e.to_string())?;
            de.end().map_err(|e| e.to_string())?;
            Ok(v)
        }
        _ => {
            let mut de = rmp_serde::Deserializer::new(&mut *r);
            T::deserialize(&mut de).map_err(|e| e.to_string())
        }
    }
}

pub fn de_bytes<T: DeserializeOwned>(fmt: Format, api: Api, bytes: &[u8]) -> Result<T, String> {
    match (fmt, api) {
        (_, Api::InPlace) => de_bytes(fmt, Api::Slice, bytes),
        (Format::Json | Format::JsonPretty, Api::Value) => {
            let v: serde_json::Value = serde_json::from_slice(bytes).map_err(|e| e.to_string())?;
            serde_json::from_value(v).map_err(|e| e.to_string())
        }
        (Format::Json | Format::JsonPretty, Api::Str) => {
            let s = std::str::from_utf8(bytes).map_err(|e| format!("utf8: {e}"))?;
            serde_json::from_str(s).map_err(|e| e.to_string())
        }
        (Format::Json | Format::JsonPretty, _) => serde_json::from_slice(bytes).map_err(|e| e.to_string()),
        (Format::Ron | Format::RonNamed, Api::Str) => {
            let s = std::str::from_utf8(bytes).map_err(|e| format!("utf8: {e}"))?;
            ron::de::from_str(s).map_err(|e| e.to_string())
        }
        (Format::Ron | Format::RonNamed, _) => ron::de::from_bytes(bytes).map_err(|e| e.to_string()),
        (Format::RonExt, Api::Str) => {
            let s = std::str::from_utf8(bytes).map_err(|e| format!("utf8: {e}"))?;
            ron_ext().from_str(s).map_err(|e| e.to_string())
        }
        (Format::RonExt, _) => ron_ext().from_bytes(bytes).map_err(|e| e.to_string()),
        (Format::Msgpack | Format::MsgpackNamed, _) => rmp_serde::from_slice(bytes).map_err(|e| e.to_string()),
    }
}

/// A stream of JSON values on one reader (`StreamDeserializer`): items up to and including
/// the first error.
pub fn de_json_stream<T: DeserializeOwned>(r: &mut SimReader) -> Vec<Result<T, String>> {
    let mut out = Vec::new();
    let it = serde_json::Deserializer::from_reader(&mut *r).into_iter::<T>();
    for item in it {
        match item {
            Ok(v) => out.push(Ok(v)),
            Err(e) => {
                out.push(Err(e.to_string()));
                break;
            }
        }
    }
    out
}

/// Serialize into the simulated writer. `Err` carries the format's error text.
pub fn ser<T: Serialize + ?Sized>(fmt: Format, v: &T, w: &mut SimWriter) -> Result<(), String> {
    match fmt {
        Format::Json => serde_json::to_writer(&mut *w, v).map_err(|e| e.to_string()),
        Format::JsonPretty => serde_json::to_writer_pretty(&mut *w, v).map_err(|e| e.to_string()),
        Format::Ron => ron::ser::to_writer(&mut *w, v).map_err(|e| e.to_string()),
        Format::RonExt => ron_ext().to_writer(&mut *w, v).map_err(|e| e.to_string()),
        Format::RonNamed => ron::Options::default()
            .to_writer_pretty(&mut *w, v, ron::ser::PrettyConfig::new().struct_names(true))
            .map_err(|e| e.to_string()),
        Format::Msgpack => {
            let mut s = rmp_serde::Serializer::new(&mut *w);
            v.serialize(&mut s).map_err(|e| e.to_string())
        }
        Format::MsgpackNamed => {
            let mut s = rmp_serde::Serializer::new(&mut *w).with_struct_map();
            v.serialize(&mut s).map_err(|e| e.to_string())
        }
    }
}

/// Serialize to bytes with no faults (plan building).
pub fn ser_bytes<T: Serialize + ?Sized>(fmt: Format, v: &T) -> Result<Vec<u8>, String> {
    let mut w = SimWriter::whole();
    ser(fmt, v, &mut w)?;
    w.flush().ok();
    Ok(w.out)
}

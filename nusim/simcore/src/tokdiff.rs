//! Differential / safety oracle over the SimFormat (token) peer.

use std::panic::{catch_unwind, AssertUnwindSafe};

use serde::de::DeserializeOwned;
use serde::Serialize;

use crate::decl::Decl;
use crate::diff::Side;
use crate::runner::panic_message;
use crate::shapes::{self, Aux, Fallthrough, ShapeId, ShapeVisitor};
use crate::simformat::{from_tokens, to_tokens, Byz, Tok};

pub struct TokResult {
    /// `Shape<T>` deserialized under (byz, fail_at).
    pub a: Side,
    /// `Shape<Twin>` under the SAME (byz, fail_at), elements pushed through the constructor.
    pub expected_same: Side,
    /// `Shape<Twin>` read honestly without injected errors, elements pushed through the
    /// constructor: the value the document carries.
    pub expected_honest: Side,
    pub byz_applied: usize,
    pub injected: bool,
    pub calls: usize,
}

struct TokVisitor<'t> {
    toks: &'t [Tok],
    target: &'t str,
    byz: Byz,
    fail_at: Option<usize>,
}

fn side_from_twin<D: Decl, B>(r: Result<B, String>, split_b: fn(B) -> (Vec<D::Twin>, String)) -> Side {
    match r {
        Err(e) => Side::Err(format!("twin: {e}")),
        Ok(h) => {
            let (els, aux) = split_b(h);
            let res = catch_unwind(AssertUnwindSafe(|| {
                let mut out = Vec::new();
                for tw in els {
                    match D::lift(D::twin_unwrap(tw)).and_then(D::construct) {
                        Ok(t) => out.push(D::repr(&t.into_inner())),
                        Err(e) => return Err(e),
                    }
                }
                Ok(out)
            }));
            match res {
                Err(p) => Side::Panic(panic_message(&p)),
                Ok(Ok(v)) => Side::Ok(v, aux),
                Ok(Err(e)) => Side::Err(format!("constructor: {e}")),
            }
        }
    }
}

impl<'t, D: Decl> ShapeVisitor<D> for TokVisitor<'t> {
    type Out = TokResult;
    fn visit<A, B>(
        self,
        _build_a: fn(Vec<D>, &Aux) -> A,
        _build_b: fn(Vec<D::Twin>, &Aux) -> B,
        split_a: fn(A) -> (Vec<D>, String),
        split_b: fn(B) -> (Vec<D::Twin>, String),
        _fallthrough: Option<Fallthrough>,
    ) -> TokResult
    where
        A: Serialize + DeserializeOwned,
        B: Serialize + DeserializeOwned,
    {
        let (toks, target, byz, fail_at) = (self.toks, self.target, self.byz, self.fail_at);
        let mut calls = 0;
        let mut injected = false;
        let mut byz_applied = 0;
        let a = match catch_unwind(AssertUnwindSafe(|| from_tokens::<A>(toks, target, byz, fail_at))) {
            Err(p) => Side::Panic(panic_message(&p)),
            Ok((r, c, inj, ba)) => {
                calls = c;
                injected = inj;
                byz_applied = ba;
                match r {
                    Ok(h) => {
                        let (els, aux) = split_a(h);
                        Side::Ok(els.into_iter().map(|t| D::repr(&t.into_inner())).collect(), aux)
                    }
                    Err(e) => Side::Err(e.0),
                }
            }
        };
        let (rb, _, _, _) = from_tokens::<B>(toks, target, byz, fail_at);
        let expected_same = side_from_twin::<D, B>(rb.map_err(|e| e.0), split_b);
        let (rh, _, _, _) = from_tokens::<B>(toks, target, Byz::Honest, None);
        let expected_honest = side_from_twin::<D, B>(rh.map_err(|e| e.0), split_b);
        TokResult { a, expected_same, expected_honest, byz_applied, injected, calls }
    }
}

pub fn diff_tokens<D: Decl>(shape: ShapeId, core: bool, toks: &[Tok], byz: Byz, fail_at: Option<usize>) -> TokResult {
    let v = TokVisitor { toks, target: D::NAME, byz, fail_at };
    { let _ = core; <D::Shapes as shapes::ShapeSet>::dispatch::<D, _>(shape, v) }
}

struct TokBuild<'a, D: Decl> {
    aux: &'a Aux,
    raws: Vec<D::TwinInner>,
    via_t: bool,
}

impl<'a, D: Decl> ShapeVisitor<D> for TokBuild<'a, D> {
    type Out = Result<Vec<Tok>, String>;
    fn visit<A, B>(
        self,
        build_a: fn(Vec<D>, &Aux) -> A,
        build_b: fn(Vec<D::Twin>, &Aux) -> B,
        _split_a: fn(A) -> (Vec<D>, String),
        _split_b: fn(B) -> (Vec<D::Twin>, String),
        _fallthrough: Option<Fallthrough>,
    ) -> Self::Out
    where
        A: Serialize + DeserializeOwned,
        B: Serialize + DeserializeOwned,
    {
        if self.via_t {
            let mut els = Vec::new();
            for r in self.raws {
                els.push(D::lift(r).and_then(D::construct)?);
            }
            to_tokens(&build_a(els, self.aux)).map_err(|e| e.0)
        } else {
            let els: Vec<D::Twin> = self.raws.into_iter().map(D::twin_wrap).collect();
            to_tokens(&build_b(els, self.aux)).map_err(|e| e.0)
        }
    }
}

pub fn build_tokens<D: Decl>(shape: ShapeId, core: bool, aux: &Aux, raws: Vec<D::TwinInner>, via_t: bool) -> Result<Vec<Tok>, String> {
    let v = TokBuild::<D> { aux, raws, via_t };
    { let _ = core; <D::Shapes as shapes::ShapeSet>::dispatch::<D, _>(shape, v) }
}

//! Simulated I/O seams: `SimReader` (io::Read), `SimWriter` (io::Write), `SimDisk`, `SimSink`
//! (fmt::Write). Every behaviour is dictated by an explicit plan; nothing here draws random
//! numbers or reads a clock, so executing a plan is a pure function of the plan.

use std::collections::BTreeMap;
use std::io::{self, ErrorKind, Read, Write};

use serde::{Deserialize, Serialize};

#[derive(Clone, Copy, Debug, PartialEq, Eq, Serialize, Deserialize)]
pub enum IoErr {
    Other,
    UnexpectedEof,
    ConnectionReset,
    WouldBlock,
    TimedOut,
    BrokenPipe,
    InvalidData,
    StorageFull,
}

impl IoErr {
    pub const ALL: [IoErr; 8] = [
        IoErr::Other,
        IoErr::UnexpectedEof,
        IoErr::ConnectionReset,
        IoErr::WouldBlock,
        IoErr::TimedOut,
        IoErr::BrokenPipe,
        IoErr::InvalidData,
        IoErr::StorageFull,
    ];
    pub fn to_io(self) -> io::Error {
        let kind = match self {
            IoErr::Other => ErrorKind::Other,
            IoErr::UnexpectedEof => ErrorKind::UnexpectedEof,
            IoErr::ConnectionReset => ErrorKind::ConnectionReset,
            IoErr::WouldBlock => ErrorKind::WouldBlock,
            IoErr::TimedOut => ErrorKind::TimedOut,
            IoErr::BrokenPipe => ErrorKind::BrokenPipe,
            IoErr::InvalidData => ErrorKind::InvalidData,
            IoErr::StorageFull => ErrorKind::Other,
        };
        io::Error::new(kind, format!("simulated {self:?}"))
    }
}

// ------------------------------------------------------------------------------------ reader

#[derive(Clone, Copy, Debug, PartialEq, Eq, Serialize, Deserialize)]
pub enum ReadStep {
    /// Deliver at most `k` (>= 1) bytes: a short read when `k` < the caller's buffer.
    Deliver(u32),
    /// `ErrorKind::Interrupted`: callers must retry transparently.
    Eintr,
    /// A hard error.
    Fail(IoErr),
    /// `Ok(0)` although bytes remain.
    Eof,
    /// Before serving this call, a concurrent writer overwrites `j` more bytes of the blob
    /// (the reader sees new-prefix / old-suffix mixtures at byte granularity), then deliver all.
    Advance(u32),
}

impl ReadStep {
    pub fn benign(&self) -> bool {
        matches!(self, ReadStep::Deliver(_) | ReadStep::Eintr)
    }
}

#[derive(Clone, Debug, Default, PartialEq, Eq)]
pub struct ReadLog {
    pub calls: u64,
    pub bytes: u64,
    pub short_reads: u64,
    pub eintr: u64,
    pub hard_errors: u64,
    pub early_eof: u64,
    pub overwrite_advances: u64,
    pub overwrite_bytes: u64,
    /// Byte offset at which the first hard error / early EOF was returned.
    pub first_fault_at: Option<usize>,
}

#[derive(Clone, Debug)]
pub struct SimReader {
    pub data: Vec<u8>,
    pub pos: usize,
    /// Content being written over `data` by a concurrent writer, and how far it got.
    pub overwrite: Option<(Vec<u8>, usize)>,
    pub plan: Vec<ReadStep>,
    pub next: usize,
    /// Chunk size used once the plan is exhausted (0 = whatever the caller asks for).
    pub tail_chunk: u32,
    pub log: ReadLog,
}

impl SimReader {
    pub fn whole(data: Vec<u8>) -> SimReader {
        SimReader { data, pos: 0, overwrite: None, plan: Vec::new(), next: 0, tail_chunk: 0, log: ReadLog::default() }
    }
    pub fn with_plan(data: Vec<u8>, plan: Vec<ReadStep>, tail_chunk: u32) -> SimReader {
        SimReader { data, pos: 0, overwrite: None, plan, next: 0, tail_chunk, log: ReadLog::default() }
    }
    pub fn remaining(&self) -> usize {
        self.data.len().saturating_sub(self.pos)
    }
    fn advance_overwrite(&mut self, j: usize) {
        if let Some((new, done)) = &mut self.overwrite {
            let end = (*done + j).min(new.len());
            if self.data.len() < end {
                self.data.resize(end, 0);
            }
            self.data[*done..end].copy_from_slice(&new[*done..end]);
            self.log.overwrite_bytes += (end - *done) as u64;
            *done = end;
            if *done == new.len() {
                // The writer finished: the file is truncated to the new length.
                self.data.truncate(new.len());
                self.overwrite = None;
            }
            self.log.overwrite_advances += 1;
        }
    }
    fn deliver(&mut self, buf: &mut [u8], k: usize) -> usize {
        let n = k.min(buf.len()).min(self.remaining());
        if n == 0 {
            return 0;
        }
        buf[..n].copy_from_slice(&self.data[self.pos..self.pos + n]);
        self.pos += n;
        self.log.bytes += n as u64;
        n
    }
    /// Read everything the way `std::io::Read::read_to_end` would (retrying EINTR), but without
    /// its buffer-growth heuristics, so the sequence of `read` calls is independent of std.
    pub fn slurp(&mut self) -> io::Result<Vec<u8>> {
        let mut out = Vec::new();
        let mut buf = [0u8; 64];
        loop {
            match self.read(&mut buf) {
                Ok(0) => return Ok(out),
                Ok(n) => out.extend_from_slice(&buf[..n]),
                Err(e) if e.kind() == ErrorKind::Interrupted => continue,
                Err(e) => return Err(e),
            }
        }
    }
}

impl Read for SimReader {
    fn read(&mut self, buf: &mut [u8]) -> io::Result<usize> {
        self.log.calls += 1;
        if buf.is_empty() {
            return Ok(0);
        }
        let step = if self.next < self.plan.len() {
            let s = self.plan[self.next];
            self.next += 1;
            s
        } else if self.tail_chunk > 0 {
            ReadStep::Deliver(self.tail_chunk)
        } else {
            ReadStep::Deliver(u32::MAX)
        };
        match step {
            ReadStep::Deliver(k) => {
                let k = (k.max(1)) as usize;
                let want = buf.len().min(self.remaining());
                let n = self.deliver(buf, k);
                if n < want {
                    self.log.short_reads += 1;
                }
                Ok(n)
            }
            ReadStep::Eintr => {
                self.log.eintr += 1;
                Err(io::Error::new(ErrorKind::Interrupted, "simulated EINTR"))
            }
            ReadStep::Fail(e) => {
                self.log.hard_errors += 1;
                self.log.first_fault_at.get_or_insert(self.pos);
                Err(e.to_io())
            }
            ReadStep::Eof => {
                if self.remaining() > 0 {
                    self.log.early_eof += 1;
                    self.log.first_fault_at.get_or_insert(self.pos);
                }
                Ok(0)
            }
            ReadStep::Advance(j) => {
                self.advance_overwrite(j as usize);
                Ok(self.deliver(buf, usize::MAX))
            }
        }
    }
}

// ------------------------------------------------------------------------------------ writer

#[derive(Clone, Copy, Debug, PartialEq, Eq, Serialize, Deserialize)]
pub enum WriteStep {
    /// Accept at most `k` (>= 1) bytes: a short write when `k` < the caller's buffer.
    Accept(u32),
    Eintr,
    Fail(IoErr),
    /// `Ok(0)`: the device is full (`write_all` turns this into `WriteZero`).
    Zero,
}

impl WriteStep {
    pub fn benign(&self) -> bool {
        matches!(self, WriteStep::Accept(_) | WriteStep::Eintr)
    }
}

#[derive(Clone, Debug, Default, PartialEq, Eq)]
pub struct WriteLog {
    pub calls: u64,
    pub bytes: u64,
    pub short_writes: u64,
    pub eintr: u64,
    pub hard_errors: u64,
    pub zero_writes: u64,
    pub flushes: u64,
    pub flush_errors: u64,
    /// Sizes of the chunks actually accepted, in order (the "sequence of write calls").
    pub chunks: Vec<u32>,
    /// Sizes the caller offered, in order.
    pub offered: Vec<u32>,
}

#[derive(Clone, Debug)]
pub struct SimWriter {
    pub out: Vec<u8>,
    pub plan: Vec<WriteStep>,
    pub next: usize,
    pub tail_chunk: u32,
    /// Fail the n-th flush (0-based), if any.
    pub flush_fail_at: Option<u32>,
    pub log: WriteLog,
}

impl SimWriter {
    pub fn whole() -> SimWriter {
        SimWriter { out: Vec::new(), plan: Vec::new(), next: 0, tail_chunk: 0, flush_fail_at: None, log: WriteLog::default() }
    }
    pub fn with_plan(plan: Vec<WriteStep>, tail_chunk: u32, flush_fail_at: Option<u32>) -> SimWriter {
        SimWriter { out: Vec::new(), plan, next: 0, tail_chunk, flush_fail_at, log: WriteLog::default() }
    }
}

impl Write for SimWriter {
    fn write(&mut self, buf: &[u8]) -> io::Result<usize> {
        self.log.calls += 1;
        self.log.offered.push(buf.len() as u32);
        if buf.is_empty() {
            return Ok(0);
        }
        let step = if self.next < self.plan.len() {
            let s = self.plan[self.next];
            self.next += 1;
            s
        } else if self.tail_chunk > 0 {
            WriteStep::Accept(self.tail_chunk)
        } else {
            WriteStep::Accept(u32::MAX)
        };
        match step {
            WriteStep::Accept(k) => {
                let n = (k.max(1) as usize).min(buf.len());
                if n < buf.len() {
                    self.log.short_writes += 1;
                }
                self.out.extend_from_slice(&buf[..n]);
                self.log.bytes += n as u64;
                self.log.chunks.push(n as u32);
                Ok(n)
            }
            WriteStep::Eintr => {
                self.log.eintr += 1;
                Err(io::Error::new(ErrorKind::Interrupted, "simulated EINTR"))
            }
            WriteStep::Fail(e) => {
                self.log.hard_errors += 1;
                Err(e.to_io())
            }
            WriteStep::Zero => {
                self.log.zero_writes += 1;
                Ok(0)
            }
        }
    }
    fn flush(&mut self) -> io::Result<()> {
        let n = self.log.flushes;
        self.log.flushes += 1;
        if self.flush_fail_at == Some(n as u32) {
            self.log.flush_errors += 1;
            return Err(IoErr::Other.to_io());
        }
        Ok(())
    }
}

// ------------------------------------------------------------------------------------ disk

#[derive(Clone, Copy, Debug, PartialEq, Eq, Serialize, Deserialize)]
pub enum Corrupt {
    BitFlip { at: u32, bit: u8 },
    ByteDrop { at: u32 },
    ByteDup { at: u32 },
    Truncate { len: u32 },
    GarbageTail { seed: u32, len: u8 },
    ZeroFill { at: u32, len: u8 },
    ByteSet { at: u32, val: u8 },
}

#[derive(Clone, Copy, Debug, PartialEq, Eq, Serialize, Deserialize)]
pub enum CrashMode {
    /// The unsynced content is lost entirely: the old durable content survives.
    LoseUnsynced,
    /// A prefix of the unsynced content survives, nothing of the old content (new file).
    TornPrefix(u32),
    /// In-place overwrite: a prefix of the new content followed by the old content's suffix.
    TornInPlace(u32),
}

#[derive(Clone, Debug, Default)]
pub struct Blob {
    pub durable: Vec<u8>,
    /// Written but not yet synced (the whole new content so far).
    pub pending: Option<Vec<u8>>,
    /// True once anything other than a clean acknowledged put+sync touched the blob.
    pub tainted: bool,
}

impl Blob {
    pub fn visible(&self) -> &[u8] {
        self.pending.as_deref().unwrap_or(&self.durable)
    }
}

#[derive(Clone, Debug, Default)]
pub struct SimDisk {
    pub blobs: BTreeMap<u8, Blob>,
}

pub fn apply_corrupt(data: &mut Vec<u8>, c: Corrupt) -> bool {
    if data.is_empty() {
        if let Corrupt::GarbageTail { seed, len } = c {
            garbage(data, seed, len);
            return true;
        }
        return false;
    }
    match c {
        Corrupt::BitFlip { at, bit } => {
            let i = at as usize % data.len();
            data[i] ^= 1 << (bit % 8);
        }
        Corrupt::ByteDrop { at } => {
            let i = at as usize % data.len();
            data.remove(i);
        }
        Corrupt::ByteDup { at } => {
            let i = at as usize % data.len();
            let b = data[i];
            data.insert(i, b);
        }
        Corrupt::Truncate { len } => {
            let n = len as usize % data.len();
            data.truncate(n);
        }
        Corrupt::GarbageTail { seed, len } => garbage(data, seed, len),
        Corrupt::ZeroFill { at, len } => {
            let i = at as usize % data.len();
            let end = (i + len as usize).min(data.len());
            for b in &mut data[i..end] {
                *b = 0;
            }
        }
        Corrupt::ByteSet { at, val } => {
            let i = at as usize % data.len();
            data[i] = val;
        }
    }
    true
}

fn garbage(data: &mut Vec<u8>, seed: u32, len: u8) {
    let mut sm = crate::rng::SplitMix64(seed as u64);
    for _ in 0..len {
        data.push(sm.next() as u8);
    }
}

impl SimDisk {
    /// Write `bytes` to blob `id` through a `SimWriter` driven by `wplan`; whatever the writer
    /// accepted becomes the pending (unsynced) content. Returns whether the put was acknowledged.
    pub fn put(&mut self, id: u8, bytes: &[u8], wplan: &[WriteStep], tail_chunk: u32) -> (bool, WriteLog) {
        let mut w = SimWriter::with_plan(wplan.to_vec(), tail_chunk, None);
        let ok = w.write_all(bytes).is_ok();
        let b = self.blobs.entry(id).or_default();
        b.pending = Some(w.out);
        if !ok {
            b.tainted = true;
        }
        (ok, w.log)
    }
    pub fn put_raw(&mut self, id: u8, content: Vec<u8>, acknowledged: bool) {
        let b = self.blobs.entry(id).or_default();
        b.pending = Some(content);
        if !acknowledged {
            b.tainted = true;
        }
    }
    pub fn sync(&mut self, id: u8) {
        if let Some(b) = self.blobs.get_mut(&id) {
            if let Some(p) = b.pending.take() {
                b.durable = p;
            }
        }
    }
    pub fn crash(&mut self, modes: &BTreeMap<u8, CrashMode>) -> u64 {
        let mut lost = 0;
        for (id, b) in self.blobs.iter_mut() {
            if let Some(p) = b.pending.take() {
                lost += 1;
                b.tainted = true;
                match modes.get(id).copied().unwrap_or(CrashMode::LoseUnsynced) {
                    CrashMode::LoseUnsynced => {}
                    CrashMode::TornPrefix(k) => {
                        let k = (k as usize).min(p.len());
                        b.durable = p[..k].to_vec();
                    }
                    CrashMode::TornInPlace(k) => {
                        let k = (k as usize).min(p.len());
                        let mut d = p[..k].to_vec();
                        if b.durable.len() > k {
                            d.extend_from_slice(&b.durable[k..]);
                        }
                        b.durable = d;
                    }
                }
            }
        }
        lost
    }
    pub fn corrupt(&mut self, id: u8, c: Corrupt) -> bool {
        if let Some(b) = self.blobs.get_mut(&id) {
            b.tainted = true;
            if let Some(p) = b.pending.as_mut() {
                return apply_corrupt(p, c);
            }
            return apply_corrupt(&mut b.durable, c);
        }
        false
    }
    pub fn visible(&self, id: u8) -> Vec<u8> {
        self.blobs.get(&id).map(|b| b.visible().to_vec()).unwrap_or_default()
    }
}

// ------------------------------------------------------------------------------------ fmt sink

/// `fmt::Write` that accepts `budget` bytes and then fails; records the chunks it was handed.
#[derive(Clone, Debug)]
pub struct SimSink {
    pub out: String,
    pub budget: Option<usize>,
    pub chunks: Vec<u32>,
    pub failed: bool,
}

impl SimSink {
    pub fn new(budget: Option<usize>) -> SimSink {
        SimSink { out: String::new(), budget, chunks: Vec::new(), failed: false }
    }
}

impl std::fmt::Write for SimSink {
    fn write_str(&mut self, s: &str) -> std::fmt::Result {
        self.chunks.push(s.len() as u32);
        if let Some(b) = self.budget {
            if self.out.len() + s.len() > b {
                // Accept what fits on a char boundary, then fail.
                let mut room = b.saturating_sub(self.out.len());
                while room > 0 && !s.is_char_boundary(room) {
                    room -= 1;
                }
                self.out.push_str(&s[..room]);
                self.failed = true;
                return Err(std::fmt::Error);
            }
        }
        self.out.push_str(s);
        Ok(())
    }
}

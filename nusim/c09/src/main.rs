//! S-ARB (property C09): derived `Arbitrary` as a consumer of a finite byte source that runs dry
//! at an arbitrary instant.
//!
//! One run = one declaration x one seeded source; for that source EVERY cut length 0..=len is
//! executed (exhaustion enumerated completely per source, sources sampled). Invariants per call:
//! (1) returns (watchdog), (2) does not panic, (3) `Ok(v)` => the hand-written model accepts v.

use std::panic::{catch_unwind, AssertUnwindSafe};
use std::time::{Duration, Instant};

use cat_c09::{ArbDecl, ArbOutcome};
use serde_json::{json, Map, Value};
use simcore::report::{self, hex, unhex, Config, EvidenceExtra};
use simcore::rng::{Fnv, Rng};
use simcore::runner::{self, panic_message, Stats, Violation, WorkerCtx};

const SCENARIO: &str = "S-ARB";
const SCENARIO_ID: u64 = 9;
const HANG_LIMIT: Duration = Duration::from_secs(20);

// ---------------------------------------------------------------------------- source swarm

const INTERESTING_CHARS: &[u32] = &[
    0x20, 0x09, 0x0A, 0x0B, 0x0C, 0x0D, 0x85, 0xA0, 0x1680, 0x2000, 0x2001, 0x2002, 0x2003, 0x2004, 0x2005, 0x2006,
    0x2007, 0x2008, 0x2009, 0x200A, 0x2028, 0x2029, 0x202F, 0x205F, 0x3000, // White_Space
    0xDF,   // ß  -> SS
    0x130,  // İ  -> i̇ (2 chars lower)
    0x149,  // ŉ  -> ʼN
    0x1C6,  // ǆ
    0x1F0,  // ǰ -> J̌
    0x390,  // ΐ -> 3 chars upper
    0x3A3,  // Σ
    0x3C2,  // ς
    0xFB00, // ﬀ -> FF
    0xFB03, // ﬃ -> FFI
    0x1E9E, // ẞ
    0x41, 0x61, 0x5A, 0x7A, 0x30, 0x00, 0x7F, 0x10FFFF, 0xD7FF, 0xE000, 0xD800, 0xDFFF, 0x110000, 0x110020, 0x11D820,
    0xFFFFFFFF, 0x80000000, 0x200B, 0xFEFF, 0x1F600,
];

const F32_SPECIAL: &[u32] = &[
    0x7FC00000, 0xFFC00000, 0x7F800001, 0x7F800000, 0xFF800000, 0x00000000, 0x80000000, 0x00000001, 0x007FFFFF,
    0x00800000, 0x7F7FFFFF, 0xFF7FFFFF, 0x3F800000, 0xBF800000, 0x3F7FFFFF, 0x3F800001, 0x42C80000, 0x42C7FFFF,
    0x42C80001, 0x7FFFFFFF, 0xFFFFFFFF, 0x4F800000, 0x4F7FFFFF,
];

const F64_SPECIAL: &[u64] = &[
    0x7FF8000000000000,
    0xFFF8000000000000,
    0x7FF0000000000001,
    0x7FF0000000000000,
    0xFFF0000000000000,
    0x0000000000000000,
    0x8000000000000000,
    0x0000000000000001,
    0x000FFFFFFFFFFFFF,
    0x0010000000000000,
    0x7FEFFFFFFFFFFFFF,
    0xFFEFFFFFFFFFFFFF,
    0x3FF0000000000000,
    0xBFF0000000000000,
    0x3FEFFFFFFFFFFFFF,
    0x4059000000000000,
    0x408F400000000000,
    0x7E37E43C8800759C, // 1e300
    0x7FFFFFFFFFFFFFFF,
    0xFFFFFFFFFFFFFFFF,
];

fn push_segment(rng: &mut Rng, out: &mut Vec<u8>, kinds: &mut Vec<&'static str>) {
    let kind = rng.weighted(&[10, 10, 6, 10, 10, 10, 8, 8, 12, 6, 6]);
    match kind {
        0 => {
            let n = rng.range_usize(1, 12);
            out.extend(std::iter::repeat(0u8).take(n));
            kinds.push("zeros");
        }
        1 => {
            let n = rng.range_usize(1, 12);
            out.extend(std::iter::repeat(0xFFu8).take(n));
            kinds.push("ones");
        }
        2 => {
            let n = rng.range_usize(1, 8);
            let b = rng.next_u64() as u8;
            out.extend(std::iter::repeat(b).take(n));
            kinds.push("repeat_byte");
        }
        3 => {
            // A word near the top of u32/u64 (scales to ~1.0 in the [0,1] generator), LE and BE.
            let wide = rng.chance(1, 2);
            let off = if rng.chance(1, 2) { rng.below(4) } else { rng.below(1024) };
            if wide {
                let w = u64::MAX - off;
                if rng.chance(3, 4) {
                    out.extend(w.to_le_bytes());
                } else {
                    out.extend(w.to_be_bytes());
                }
            } else {
                let w = u32::MAX - (off as u32 & 0x7F);
                if rng.chance(3, 4) {
                    out.extend(w.to_le_bytes());
                } else {
                    out.extend(w.to_be_bytes());
                }
            }
            kinds.push("near_max_word");
        }
        4 => {
            let w = *rng.pick(F32_SPECIAL);
            if rng.chance(3, 4) {
                out.extend(w.to_le_bytes());
            } else {
                out.extend(w.to_be_bytes());
            }
            kinds.push("f32_special");
        }
        5 => {
            let w = *rng.pick(F64_SPECIAL);
            if rng.chance(3, 4) {
                out.extend(w.to_le_bytes());
            } else {
                out.extend(w.to_be_bytes());
            }
            kinds.push("f64_special");
        }
        6 => {
            // Small words that land `int_in_range` on start, end, end-1 (big-endian accumulation).
            let n = rng.range_usize(1, 8);
            let v: u64 = match rng.below(6) {
                0 => 0,
                1 => 1,
                2 => u64::MAX,
                3 => u64::MAX - 1,
                4 => rng.below(40),
                _ => 255 - rng.below(4),
            };
            let be = v.to_be_bytes();
            out.extend(&be[8 - n..]);
            kinds.push("int_boundary_word");
        }
        7 => {
            // A run of whitespace characters (LE u32 each).
            let n = rng.range_usize(1, 6);
            for _ in 0..n {
                let c = INTERESTING_CHARS[rng.usize_below(25)];
                out.extend(c.to_le_bytes());
            }
            kinds.push("whitespace_chars");
        }
        8 => {
            let n = rng.range_usize(1, 6);
            for _ in 0..n {
                let c = if rng.chance(1, 3) { *rng.pick(simcore::decl::case_expanding()) as u32 } else { *rng.pick(INTERESTING_CHARS) };
                out.extend(c.to_le_bytes());
            }
            kinds.push("special_chars");
        }
        9 => {
            let n = rng.range_usize(1, 5);
            for _ in 0..n {
                let c = (rng.below(0x7F - 0x20) + 0x20) as u32;
                out.extend(c.to_le_bytes());
            }
            kinds.push("ascii_chars");
        }
        _ => {
            let n = rng.range_usize(1, 16);
            let start = out.len();
            out.resize(start + n, 0);
            rng.fill(&mut out[start..]);
            kinds.push("random");
        }
    }
}

struct Source {
    decl: usize,
    bytes: Vec<u8>,
    kinds: Vec<&'static str>,
}

fn push_chars(rng: &mut Rng, out: &mut Vec<u8>, kinds: &mut Vec<&'static str>) {
    // A run of chars, mostly plain, with a few whitespace / case-expanding ones mixed in.
    let n = rng.range_usize(1, 24);
    for _ in 0..n {
        let c: u32 = match rng.below(12) {
            // an ALIAS of an interesting char: `char::arbitrary` reduces the drawn u32 modulo
            // 0x110000 and maps the surrogate block 0xD800..=0xDFFF down to 0x0000..=0x07FF
            11 => {
                let x = if rng.chance(1, 2) { *rng.pick(simcore::decl::case_expanding()) as u32 } else { INTERESTING_CHARS[rng.usize_below(36)] };
                if x < 0x800 && rng.chance(1, 2) {
                    0xD800 + x
                } else {
                    x + 0x11_0000u32 * (rng.below(3800) as u32 + 1)
                }
            }
            0 => INTERESTING_CHARS[rng.usize_below(25)],
            1 | 2 => *rng.pick(INTERESTING_CHARS),
            10 => *rng.pick(simcore::decl::case_expanding()) as u32,
            3 => 0,
            4 => rng.next_u32(),
            _ => (rng.below(0x7F - 0x21) + 0x21) as u32,
        };
        out.extend(c.to_le_bytes());
    }
    kinds.push("char_run_mixed");
}

fn build_source(seed: u64, run_index: u64, decls: &[ArbDecl]) -> Source {
    let mut rng = Rng::for_run(seed, SCENARIO_ID, run_index);
    // Round-robin over declarations so every one gets the same number of sources.
    let decl = (run_index % decls.len() as u64) as usize;
    let fam = decls[decl].family;
    let max_len = match fam {
        "string" => 140,
        "any" => 40,
        _ => 28,
    };
    let mut bytes = Vec::new();
    let mut kinds = Vec::new();
    let shaped = rng.chance(2, 3);
    if shaped && fam == "string" {
        // Shaped like what the string generator reads: a length word, then chars.
        match rng.below(4) {
            0 => {}
            1 => {
                bytes.push(0xFF);
                kinds.push("len_word_ff");
            }
            _ => {
                bytes.push(rng.below(48) as u8);
                kinds.push("len_word_small");
            }
        }
        let nseg = rng.range_usize(0, 3);
        for _ in 0..nseg {
            match rng.below(4) {
                0 => push_segment(&mut rng, &mut bytes, &mut kinds),
                _ => push_chars(&mut rng, &mut bytes, &mut kinds),
            }
        }
    } else if shaped && fam == "float" {
        // Whole words: specials, near-MAX, random; 0..3 of them, sometimes a ragged tail.
        let nw = rng.range_usize(0, 3);
        for _ in 0..nw {
            match rng.below(5) {
                0 | 1 => push_segment(&mut rng, &mut bytes, &mut kinds),
                2 => {
                    bytes.extend((u64::MAX - rng.below(3)).to_le_bytes());
                    kinds.push("near_max_word");
                }
                3 => {
                    let w = *rng.pick(F64_SPECIAL);
                    bytes.extend(w.to_le_bytes());
                    kinds.push("f64_special");
                }
                _ => {
                    let w = *rng.pick(F32_SPECIAL);
                    bytes.extend(w.to_le_bytes());
                    kinds.push("f32_special");
                }
            }
        }
        if rng.chance(1, 3) {
            let n = rng.range_usize(1, 7);
            let start = bytes.len();
            bytes.resize(start + n, 0);
            rng.fill(&mut bytes[start..]);
            kinds.push("random");
        }
    } else {
        let nseg = rng.range_usize(0, if fam == "string" { 8 } else { 4 });
        for _ in 0..nseg {
            push_segment(&mut rng, &mut bytes, &mut kinds);
        }
    }
    bytes.truncate(max_len);
    Source { decl, bytes, kinds }
}

// ---------------------------------------------------------------------------- one call

#[derive(Clone, Debug, PartialEq)]
enum CallVerdict {
    OkValid,
    ArbErr,
    Violation { invariant: &'static str, signature: String, detail: String },
}

struct CallResult {
    verdict: CallVerdict,
    class: &'static str,
    repr_hash: u64,
    consumed: usize,
}

fn error_variant(msg: &str) -> String {
    // First identifier ending in "Violated".
    let bytes = msg.as_bytes();
    if let Some(pos) = msg.find("Violated") {
        let mut s = pos;
        while s > 0 && (bytes[s - 1].is_ascii_alphanumeric() || bytes[s - 1] == b'_') {
            s -= 1;
        }
        return msg[s..pos + "Violated".len()].to_string();
    }
    if msg.contains("This should never happened") {
        return "unreachable_longer_than_target".to_string();
    }
    if msg.contains("overflow") {
        return "arithmetic_overflow".to_string();
    }
    "other".to_string()
}

fn invalid_value_in(msg: &str) -> Option<&str> {
    let key = "Invalid inner value: ";
    let p = msg.find(key)? + key.len();
    let rest = &msg[p..];
    let end = rest.find("\nValidation error").unwrap_or_else(|| rest.find('\n').unwrap_or(rest.len()));
    Some(&rest[..end])
}

fn call(decl: &ArbDecl, bytes: &[u8]) -> CallResult {
    call_entry(decl, bytes, false)
}

/// `rest`: through `arbitrary_take_rest` (same invariants; signatures get a `take_rest:` prefix).
fn call_entry(decl: &ArbDecl, bytes: &[u8], rest: bool) -> CallResult {
    let mut r = call_entry_raw(decl, bytes, rest);
    if rest {
        if let CallVerdict::Violation { signature, .. } = &mut r.verdict {
            *signature = format!("take_rest:{signature}");
        }
    }
    r
}

fn call_entry_raw(decl: &ArbDecl, bytes: &[u8], rest: bool) -> CallResult {
    let r = catch_unwind(AssertUnwindSafe(|| (decl.run)(bytes, rest)));
    match r {
        Ok(ArbOutcome::Value { repr, valid, class, consumed }) => {
            let h = Fnv::of_str(&repr);
            if valid {
                CallResult { verdict: CallVerdict::OkValid, class, repr_hash: h, consumed }
            } else {
                CallResult {
                    verdict: CallVerdict::Violation {
                        invariant: "returned_value_satisfies_validators",
                        signature: format!("invalid_value_returned:{class}"),
                        detail: format!("arbitrary returned Ok({repr}) which the hand-written model rejects"),
                    },
                    class,
                    repr_hash: h,
                    consumed,
                }
            }
        }
        Ok(ArbOutcome::ArbError(e)) => CallResult {
            verdict: CallVerdict::ArbErr,
            class: "arb_error",
            repr_hash: Fnv::of_str(&e),
            consumed: bytes.len(),
        },
        Err(p) => {
            let msg = panic_message(&p);
            let variant = error_variant(&msg);
            let class = invalid_value_in(&msg).map(|v| (decl.classify)(v)).unwrap_or("na");
            CallResult {
                verdict: CallVerdict::Violation {
                    invariant: "no_panic",
                    signature: format!("panic:{variant}:{class}"),
                    detail: msg,
                },
                class: "panic",
                repr_hash: 0,
                consumed: bytes.len(),
            }
        }
    }
}

fn plan_json(decl: &ArbDecl, bytes: &[u8]) -> Value {
    json!({"decl": decl.name, "nutype": decl.text, "bytes_hex": hex(bytes), "len": bytes.len()})
}

fn plan_json_rest(decl: &ArbDecl, bytes: &[u8]) -> Value {
    let mut p = plan_json(decl, bytes);
    p["entry"] = json!("arbitrary_take_rest");
    p
}

/// The second entry point of the derived impl on the same source: `arbitrary_take_rest`.
fn check_take_rest(decl: &ArbDecl, bytes: &[u8], st: &mut Stats, tag: u64) {
    let r = call_entry(decl, bytes, true);
    st.evaluations += 1;
    st.inc("calls.arbitrary_take_rest");
    if let CallVerdict::Violation { invariant, signature, detail } = &r.verdict {
        st.inc("outcome.violation_raw");
        st.violation(Violation {
            run_index: tag,
            scenario: SCENARIO,
            decl: decl.name.to_string(),
            invariant: invariant.to_string(),
            signature: signature.clone(),
            detail: detail.clone(),
            plan: plan_json_rest(decl, bytes),
        });
    }
}

// ---------------------------------------------------------------------------- one run

fn is_loop_decl(d: &ArbDecl) -> bool {
    (d.family == "string" && d.text.contains("trim") && d.text.contains("validate"))
        || (d.family == "float" && d.text.contains("validate"))
}

fn first_word_non_finite(d: &ArbDecl, bytes: &[u8]) -> bool {
    if d.family != "float" {
        return false;
    }
    if d.name.starts_with("F32") {
        let mut b = [0u8; 4];
        for (i, x) in bytes.iter().take(4).enumerate() {
            b[i] = *x;
        }
        !f32::from_le_bytes(b).is_finite()
    } else {
        let mut b = [0u8; 8];
        for (i, x) in bytes.iter().take(8).enumerate() {
            b[i] = *x;
        }
        !f64::from_le_bytes(b).is_finite()
    }
}

fn run_one(seed: u64, run_index: u64, decls: &[ArbDecl], st: &mut Stats, ctx: &WorkerCtx) {
    let src = build_source(seed, run_index, decls);
    let decl = &decls[src.decl];
    let mut log = Fnv::default();
    log.str(decl.name);
    let full = ctx.guarded(|| plan_json(decl, &src.bytes), || call(decl, &src.bytes));
    let full_consumed = full.consumed;
    ctx.guarded(|| plan_json_rest(decl, &src.bytes), || check_take_rest(decl, &src.bytes, st, run_index));
    let mut verdict_code = 0u8;
    for cut in 0..=src.bytes.len() {
        let bytes = &src.bytes[..cut];
        let r = if cut == src.bytes.len() {
            CallResult { verdict: full.verdict.clone(), class: full.class, repr_hash: full.repr_hash, consumed: full.consumed }
        } else {
            ctx.guarded(|| plan_json(decl, bytes), || call(decl, bytes))
        };
        st.evaluations += 1;
        st.steps += r.consumed as u64 + 1;
        let dry = cut < full_consumed;
        if dry {
            st.inc("fault.source_exhausted_inside_call");
            if is_loop_decl(decl) {
                st.inc("probe.arb_source_ran_dry_in_decl_with_retry_loop");
            }
        }
        if cut == 0 {
            st.inc("fault.source_empty");
        }
        if first_word_non_finite(decl, bytes) && decl.text.contains("validate") {
            st.inc("probe.non_finite_word_fed_to_float_generator");
        }
        let oc = match &r.verdict {
            CallVerdict::OkValid => {
                st.inc("outcome.ok_valid");
                0u8
            }
            CallVerdict::ArbErr => {
                st.inc("outcome.arbitrary_error");
                1
            }
            CallVerdict::Violation { invariant, signature, detail } => {
                st.inc("outcome.violation_raw");
                verdict_code = 1;
                st.violation(Violation {
                    run_index,
                    scenario: SCENARIO,
                    decl: decl.name.to_string(),
                    invariant: invariant.to_string(),
                    signature: signature.clone(),
                    detail: detail.clone(),
                    plan: plan_json(decl, bytes),
                });
                2
            }
        };
        log.u64(cut as u64);
        log.u64(oc as u64);
        log.u64(r.repr_hash);
        log.u64(r.consumed as u64);
        // Non-trivial: the source ran dry inside the call, or was empty, or carried a boundary
        // pattern; distinct by (decl, outcome, value class, dry?, cut length, consumed).
        let nontrivial = dry || cut == 0 || src.kinds.iter().any(|k| *k != "random" && *k != "ascii_chars");
        if nontrivial {
            let mut h = Fnv::default();
            h.str(decl.name);
            h.u64(oc as u64);
            h.str(r.class);
            h.u64(dry as u64);
            h.u64(cut as u64);
            h.u64(r.consumed as u64);
            st.distinct.push(h.0);
        }
    }
    for k in &src.kinds {
        st.inc_dyn(&format!("segment.{k}"));
    }
    st.histories.push(log.0);
    if st.keep_trace {
        st.trace.push((run_index, log.0, verdict_code));
    }
    st.sample(run_index, || {
        json!({"run_index": run_index, "decl": decl.name, "nutype": decl.text, "source_hex": hex(&src.bytes),
               "segments": src.kinds, "cuts_executed": src.bytes.len() + 1, "bytes_consumed_by_full_source": full_consumed})
    });
}

// ---------------------------------------------------------------------------- minimisation

fn find_decl<'a>(decls: &'a [ArbDecl], name: &str) -> Option<&'a ArbDecl> {
    decls.iter().find(|d| d.name == name)
}

fn fails_same(decl: &ArbDecl, bytes: &[u8], sig: &str) -> Option<String> {
    match call_entry(decl, bytes, sig.starts_with("take_rest:")).verdict {
        CallVerdict::Violation { signature, detail, .. } if signature == sig => Some(detail),
        _ => None,
    }
}

fn minimise(decls: &[ArbDecl], v: &Violation) -> Violation {
    let Some(decl) = find_decl(decls, &v.decl) else { return v.clone() };
    let mut bytes = unhex(v.plan["bytes_hex"].as_str().unwrap_or(""));
    let mut detail = v.detail.clone();
    // 1. shortest failing prefix
    for n in 0..bytes.len() {
        if let Some(d) = fails_same(decl, &bytes[..n], &v.signature) {
            bytes.truncate(n);
            detail = d;
            break;
        }
    }
    // 2. drop single bytes, 3. simplify bytes toward 00 / FF
    let mut changed = true;
    let mut guard = 0;
    while changed && guard < 8 {
        changed = false;
        guard += 1;
        let mut i = 0;
        while i < bytes.len() {
            let mut t = bytes.clone();
            t.remove(i);
            if let Some(d) = fails_same(decl, &t, &v.signature) {
                bytes = t;
                detail = d;
                changed = true;
            } else {
                i += 1;
            }
        }
        for i in 0..bytes.len() {
            for cand in [0x00u8, 0xFF, 0x80, 0x20] {
                if bytes[i] == cand || (cand != 0 && bytes[i] == 0) {
                    continue;
                }
                if cand > bytes[i] && cand != 0xFF {
                    continue;
                }
                let mut t = bytes.clone();
                t[i] = cand;
                if let Some(d) = fails_same(decl, &t, &v.signature) {
                    bytes = t;
                    detail = d;
                    changed = true;
                    break;
                }
            }
        }
    }
    let plan = if v.signature.starts_with("take_rest:") { plan_json_rest(decl, &bytes) } else { plan_json(decl, &bytes) };
    Violation { detail, plan, ..v.clone() }
}

// ---------------------------------------------------------------------------- modes

fn hang_exit(cfg: &Config, plan: Value) -> ! {
    let decl = plan["decl"].as_str().unwrap_or("?").to_string();
    let v = Violation {
        run_index: 0,
        scenario: SCENARIO,
        decl: decl.clone(),
        invariant: "terminates".into(),
        signature: "hang".into(),
        detail: format!("arbitrary() did not return within {}s on a finite source", HANG_LIMIT.as_secs()),
        plan,
    };
    let known = report::Known::load(&cfg.verif_dir);
    if let Some(k) = known.matches(cfg.property, &v) {
        // A hang cannot be skipped (the worker is lost); report and stop the sweep cleanly.
        println!("KNOWN-FINDING: property={} decl={} signature=hang {}", cfg.property, decl, k.what);
        std::process::exit(report::EXIT_HARNESS);
    }
    let path = report::write_replay(cfg, &v);
    println!(
        "VIOLATION property={} replay={} decl={} invariant=terminates signature=hang detail={}",
        cfg.property,
        path.display(),
        decl,
        v.detail
    );
    std::process::exit(report::EXIT_VIOLATION)
}

fn sweep(cfg: &Config, decls: &[ArbDecl], n_sources: u64, keep_trace: bool, workers: usize) -> Stats {
    let seed = cfg.seed;
    let cfg2 = cfg.clone();
    runner::run_sharded(
        n_sources,
        workers,
        keep_trace,
        HANG_LIMIT,
        move |plan| hang_exit(&cfg2, plan),
        |i, st, ctx| run_one(seed, i, decls, st, ctx),
    )
}

/// The fixed, seed-independent corpus: for every declaration the empty source, and all-00 /
/// all-FF / alternating sources of every length up to 64 (complete over that family).
fn fixed_corpus(decls: &[ArbDecl], st: &mut Stats, ctx: &WorkerCtx, which: u64) {
    let decl = &decls[which as usize];
    // every source of length 1 (length 0 is part of the pattern families below)
    enum_last_byte(decl, &[], st, ctx, "short_corpus_calls.len1", u64::MAX - which);
    let patterns: [(&str, fn(usize) -> u8); 5] = [
        ("all_00", |_| 0x00),
        ("all_FF", |_| 0xFF),
        ("alt_FF_00", |i| if i % 2 == 0 { 0xFF } else { 0x00 }),
        ("all_20", |_| 0x20),
        ("all_7F", |_| 0x7F),
    ];
    for (pname, f) in patterns {
        for len in 0..=64usize {
            let bytes: Vec<u8> = (0..len).map(f).collect();
            let r = ctx.guarded(|| plan_json(decl, &bytes), || call(decl, &bytes));
            ctx.guarded(|| plan_json_rest(decl, &bytes), || check_take_rest(decl, &bytes, st, u64::MAX - which));
            st.evaluations += 1;
            st.steps += r.consumed as u64 + 1;
            st.inc("fixed_corpus_calls");
            if len == 0 {
                st.inc("fault.source_empty");
            }
            let oc = match &r.verdict {
                CallVerdict::OkValid => {
                    st.inc("outcome.ok_valid");
                    0u64
                }
                CallVerdict::ArbErr => {
                    st.inc("outcome.arbitrary_error");
                    1
                }
                CallVerdict::Violation { invariant, signature, detail } => {
                    st.inc("outcome.violation_raw");
                    st.violation(Violation {
                        run_index: u64::MAX - which,
                        scenario: SCENARIO,
                        decl: decl.name.to_string(),
                        invariant: invariant.to_string(),
                        signature: signature.clone(),
                        detail: detail.clone(),
                        plan: plan_json(decl, &bytes),
                    });
                    2
                }
            };
            let mut h = Fnv::default();
            h.str(decl.name);
            h.str(pname);
            h.u64(oc);
            h.str(r.class);
            h.u64(len as u64);
            st.distinct.push(h.0);
        }
    }
}

/// Every source `prefix ++ [b]` for b in 0..=255 (one watchdog guard per 256 calls).
fn enum_last_byte(decl: &ArbDecl, prefix: &[u8], st: &mut Stats, ctx: &WorkerCtx, counter: &'static str, tag: u64) {
    let mut bytes = prefix.to_vec();
    bytes.push(0);
    let last = bytes.len() - 1;
    let plan = || {
        let mut p = plan_json(decl, prefix);
        p["enumerate_suffix_bytes"] = json!(1);
        p
    };
    ctx.guarded(plan, || {
        for b in 0..=255u8 {
            bytes[last] = b;
            let r = call(decl, &bytes);
            st.evaluations += 1;
            st.steps += r.consumed as u64 + 1;
            match &r.verdict {
                CallVerdict::OkValid => st.inc("outcome.ok_valid"),
                CallVerdict::ArbErr => st.inc("outcome.arbitrary_error"),
                CallVerdict::Violation { invariant, signature, detail } => {
                    st.inc("outcome.violation_raw");
                    st.violation(Violation {
                        run_index: tag,
                        scenario: SCENARIO,
                        decl: decl.name.to_string(),
                        invariant: invariant.to_string(),
                        signature: signature.clone(),
                        detail: detail.clone(),
                        plan: plan_json(decl, &bytes),
                    });
                }
            }
        }
    });
    st.add(counter, 256);
}

fn is_f32_decl(d: &ArbDecl) -> bool {
    d.family == "float" && d.name.contains("F32")
}

/// Declarations whose every 2-byte source is executed: all in the thorough tier, a seed-chosen
/// sixteenth in the quick tier.
fn two_byte_selection(cfg: &Config, decls: &[ArbDecl]) -> Vec<usize> {
    if cfg.thorough() {
        return (0..decls.len()).collect();
    }
    let off = (cfg.seed % 16) as usize;
    (0..decls.len()).filter(|i| i % 16 == off).collect()
}

/// f32 generators whose every 4-byte source (= every f32 bit pattern as the first word) is
/// executed in the thorough tier: three, chosen by the seed.
fn four_byte_selection(cfg: &Config, decls: &[ArbDecl]) -> Vec<usize> {
    if !cfg.thorough() {
        return vec![];
    }
    let f32s: Vec<usize> = (0..decls.len()).filter(|i| is_f32_decl(&decls[*i]) && decls[*i].text.contains("validate")).collect();
    if f32s.is_empty() {
        return vec![];
    }
    let mut rng = Rng::for_run(cfg.seed, SCENARIO_ID ^ 0x4b, 0);
    let mut out = Vec::new();
    while out.len() < 3.min(f32s.len()) {
        let c = f32s[rng.usize_below(f32s.len())];
        if !out.contains(&c) {
            out.push(c);
        }
    }
    out
}

fn run_check(cfg: &Config) -> i32 {
    let t0 = Instant::now();
    let mut determinism_diverged = false;
    let decls = cat_c09::all();
    let n_sources: u64 = if cfg.thorough() { 24_000_000 } else { 500_000 };
    // Fixed corpus first (sharded by declaration), then the seeded sweep.
    let cfg2 = cfg.clone();
    let mut stats = runner::run_sharded(
        decls.len() as u64,
        cfg.workers,
        false,
        HANG_LIMIT,
        move |plan| hang_exit(&cfg2, plan),
        |i, st, ctx| fixed_corpus(&decls, st, ctx, i),
    );
    let two = two_byte_selection(cfg, &decls);
    let cfg3 = cfg.clone();
    let two_ref = &two;
    let decls_ref = &decls;
    let st2 = runner::run_sharded(
        two.len() as u64 * 256,
        cfg.workers,
        false,
        HANG_LIMIT,
        move |plan| hang_exit(&cfg3, plan),
        |i, st, ctx| {
            let d = &decls_ref[two_ref[(i / 256) as usize]];
            enum_last_byte(d, &[(i % 256) as u8], st, ctx, "short_corpus_calls.len2", u64::MAX - 1_000_000 - i);
        },
    );
    stats.merge(st2);
    let four = four_byte_selection(cfg, &decls);
    if !four.is_empty() {
        let cfg4 = cfg.clone();
        let four_ref = &four;
        let st4 = runner::run_sharded(
            four.len() as u64 * (1 << 24),
            cfg.workers,
            false,
            HANG_LIMIT,
            move |plan| hang_exit(&cfg4, plan),
            |i, st, ctx| {
                let d = &decls_ref[four_ref[(i >> 24) as usize]];
                let p = (i & 0xFF_FFFF) as u32;
                enum_last_byte(d, &[(p >> 16) as u8, (p >> 8) as u8, p as u8], st, ctx, "short_corpus_calls.f32_len4", u64::MAX - 2_000_000_000_000 - i);
            },
        );
        stats.merge(st4);
    }
    let sweep_stats = sweep(cfg, &decls, n_sources, false, cfg.workers);
    stats.merge(sweep_stats);

    // Re-execute the minimised plan of every recorded finding against the current tree, so the
    // KNOWN-FINDING lines do not depend on what the seeded sweep happened to reach.
    let known = report::Known::load(&cfg.verif_dir);
    let plan_only = cat_c09::plan_only();
    for k in known.for_property(cfg.property) {
        let Some(decl) = find_decl(&decls, &k.decl).or_else(|| find_decl(&plan_only, &k.decl)) else { continue };
        let bytes = unhex(k.plan["bytes_hex"].as_str().unwrap_or(""));
        stats.inc("known_finding_plans_executed");
        let rest = k.plan["entry"].as_str() == Some("arbitrary_take_rest");
        match call_entry(decl, &bytes, rest).verdict {
            CallVerdict::Violation { invariant, signature, detail } if signature == k.signature => {
                stats.violation(Violation {
                    run_index: u64::MAX,
                    scenario: SCENARIO,
                    decl: decl.name.to_string(),
                    invariant: invariant.to_string(),
                    signature,
                    detail,
                    plan: if rest { plan_json_rest(decl, &bytes) } else { plan_json(decl, &bytes) },
                });
            }
            _ => println!(
                "NOTE: recorded finding property={} decl={} signature={} no longer reproduces on this tree (repaired?)",
                cfg.property, k.decl, k.signature
            ),
        }
    }

    // In-check determinism probe: a slice of the sweep twice, with different worker counts.
    let a = sweep(cfg, &decls, 2048, true, 3);
    let b = sweep(cfg, &decls, 2048, true, cfg.workers.max(2));
    if a.trace != b.trace {
        determinism_diverged = true;
    }

    let out = report::settle_violations(cfg, &stats, &|v| minimise(&decls, v));
    if determinism_diverged {
        if out.new_violations == 0 {
            // The simulator is deterministic on the unchanged tree (./check selfcheck); if the same
            // seeds give different event logs at different worker counts, something in the run has
            // state that outlives a run. Without a concrete violation this is reported as a harness
            // error, never as a property violation.
            report::harness_error("determinism probe failed: the same seeds produced different event logs at different worker counts");
        }
        println!("NOTE: the determinism probe also diverged (results depend on which runs shared a worker thread: hidden state that outlives a run)");
    }
    let wall = t0.elapsed().as_secs_f64();
    let mut extra = Map::new();
    extra.insert("declarations".into(), json!(decls.iter().map(|d| d.name).collect::<Vec<_>>()));
    extra.insert("sources".into(), json!(n_sources));
    extra.insert(
        "short_sources_executed_completely".into(),
        json!({
            "length_0_and_1": "every declaration",
            "length_2": {"declarations": two.len(), "of": decls.len(), "names": if two.len() == decls.len() { json!("all") } else { json!(two.iter().map(|i| decls[*i].name).collect::<Vec<_>>()) }},
            "length_4_f32_generators": four.iter().map(|i| decls[*i].name).collect::<Vec<_>>(),
        }),
    );
    extra.insert(
        "determinism_probe".into(),
        json!({"runs": 2048, "worker_counts": [3, cfg.workers.max(2)], "event_logs_identical": true}),
    );
    let reach_ok = stats.get("fault.source_exhausted_inside_call") > 0
        && stats.get("probe.arb_source_ran_dry_in_decl_with_retry_loop") > 0
        && stats.get("probe.non_finite_word_fed_to_float_generator") > 0;
    extra.insert("reach_probes_nonzero".into(), json!(reach_ok));
    if !reach_ok && out.new_violations == 0 {
        report::harness_error("a reach probe is stuck at zero: workload does not exercise the fault");
    }
    report::write_evidence(
        cfg,
        &stats,
        &out,
        wall,
        EvidenceExtra {
            level: "exploration",
            rule: "one evaluation = one call of <T as Arbitrary>::arbitrary on a byte source prefix. Sources: (a) fixed corpus: for every declaration all-00/all-FF/FF00/all-20/all-7F of every length 0..=64, every 1-byte source, every 2-byte source for the declarations listed under short_sources_executed_completely (all of them in the thorough tier), and in the thorough tier every 4-byte source for three seed-chosen validated f32 generators; (b) seeded swarm of boundary segments (zeros, ones, near-MAX words, NaN/inf/subnormal patterns, whitespace and case-expanding chars, int_in_range boundary words, random) and for each source EVERY cut length 0..=len (exhaustion point enumerated completely). Non-trivial = the source ran dry inside the call, was empty, or carried a boundary segment; distinct = distinct (declaration, outcome class, value class relative to declared bounds, ran-dry flag, cut length, bytes consumed) tuples, counted by hashing into a set.".into(),
            assumptions: vec![
                "the hand-written validity models in nusim/cat-c09 state the declared validators correctly (independent of the macro)".into(),
                "arbitrary 1.3.2's Unstructured is the byte source (real code)".into(),
                "seeded sampling of sources: a clean run is evidence, not proof; sources longer than the completely executed short ones are sampled, not enumerated".into(),
            ],
            real_components: vec!["nutype_macros expansion from /repo (Arbitrary, try_new, sanitize, validate)", "arbitrary::Unstructured", "core/alloc/std"],
            stub_components: vec!["byte source (seeded swarm + fixed corpus)", "exhaustion fault = prefix cut"],
            extra,
            exhaustive: false,
        },
    );
    println!(
        "C09 S-ARB: {} calls, {} distinct non-trivial, {} raw violating calls, {} new violation signatures, {} known findings hit, {:.1}s",
        stats.evaluations,
        stats.distinct.len(),
        stats.get("outcome.violation_raw"),
        out.new_violations,
        out.known_hits.len(),
        wall
    );
    if out.new_violations > 0 {
        report::EXIT_VIOLATION
    } else {
        report::EXIT_OK
    }
}

fn run_replay(cfg: &Config, path: &str) -> i32 {
    let text = std::fs::read_to_string(path).unwrap_or_else(|e| report::harness_error(&format!("cannot read {path}: {e}")));
    let v: Value = serde_json::from_str(&text).unwrap_or_else(|e| report::harness_error(&format!("bad replay file: {e}")));
    let mut decls = cat_c09::all();
    decls.extend(cat_c09::plan_only());
    let name = v["plan"]["decl"].as_str().unwrap_or("");
    let Some(decl) = find_decl(&decls, name) else {
        report::harness_error(&format!("replay names unknown declaration {name:?}"))
    };
    let bytes = unhex(v["plan"]["bytes_hex"].as_str().unwrap_or(""));
    // A hang met while enumerating the last byte records the prefix only.
    let enumerate_last = v["plan"]["enumerate_suffix_bytes"].as_u64().unwrap_or(0) == 1;
    let want_sig = v["signature"].as_str().unwrap_or("").to_string();
    // The watchdog applies to replay as well (a recorded hang must hang again).
    let cfg2 = cfg.clone();
    let rest = v["plan"]["entry"].as_str() == Some("arbitrary_take_rest");
    let plan = if rest { plan_json_rest(decl, &bytes) } else { plan_json(decl, &bytes) };
    let want_hang = want_sig == "hang";
    let st = runner::run_sharded(
        1,
        1,
        false,
        HANG_LIMIT,
        move |plan| {
            if want_hang {
                println!("REPRODUCED property={} decl={} signature=hang", cfg2.property, plan["decl"].as_str().unwrap_or("?"));
                std::process::exit(report::EXIT_VIOLATION);
            }
            hang_exit(&cfg2, plan)
        },
        |_, st, ctx| {
            if enumerate_last {
                ctx.guarded(|| plan.clone(), || {
                    let mut b = bytes.clone();
                    b.push(0);
                    for x in 0..=255u8 {
                        *b.last_mut().unwrap() = x;
                        let _ = call(decl, &b);
                    }
                });
                return;
            }
            let r = ctx.guarded(|| plan.clone(), || call_entry(decl, &bytes, rest));
            if let CallVerdict::Violation { invariant, signature, detail } = r.verdict {
                st.violation(Violation {
                    run_index: 0,
                    scenario: SCENARIO,
                    decl: decl.name.into(),
                    invariant: invariant.into(),
                    signature,
                    detail,
                    plan: plan.clone(),
                });
            }
        },
    );
    match st.violations.first() {
        Some(got) if got.signature == want_sig => {
            println!(
                "REPRODUCED property={} decl={} invariant={} signature={} detail={}",
                cfg.property,
                got.decl,
                got.invariant,
                got.signature,
                got.detail.replace('\n', " ")
            );
            report::EXIT_VIOLATION
        }
        Some(got) => {
            println!("REPLAY-DIVERGED: expected signature {want_sig}, got {}", got.signature);
            report::EXIT_HARNESS
        }
        None => {
            println!("NOT-REPRODUCED: the stored plan no longer violates C09 on this tree");
            report::EXIT_HARNESS
        }
    }
}

fn main() {
    let args: Vec<String> = std::env::args().skip(1).collect();
    let cfg = Config::from_env("C09", &args);
    runner::quiet_panics();
    let code = match args.first().map(|s| s.as_str()) {
        Some("replay") => run_replay(&cfg, args.get(1).map(|s| s.as_str()).unwrap_or("")),
        Some("tracehash") => {
            let n: u64 = args.get(1).and_then(|s| s.parse().ok()).unwrap_or(4096);
            let decls = cat_c09::all();
            let st = sweep(&cfg, &decls, n, true, cfg.workers);
            let mut h = Fnv::default();
            for (i, l, v) in &st.trace {
                h.u64(*i);
                h.u64(*l);
                h.u64(*v as u64);
            }
            println!("TRACEHASH scenario={SCENARIO} seed={} runs={} hash={:016x}", cfg.seed, n, h.0);
            0
        }
        _ => run_check(&cfg),
    };
    std::process::exit(code);
}

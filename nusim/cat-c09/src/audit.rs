//! Declarations that came out of an audit of the unmodified tree: bound expressions whose
//! top-level operator binds more loosely than the arithmetic the generators splice them into,
//! negated constants, ranges one ulp wide, bounds one ulp from the type's limit, infinite bounds.
//! Each has a non-empty valid set; the model states the validators as written.

use super::*;

pub const THREE: i32 = 3;
pub const EIGHT: i32 = 8;
pub const SIXTEEN: i32 = 16;
pub const EIGHT_U: usize = 8;
pub const A3: f64 = 3.0;
pub const B1: f64 = 1.0;

catalogue! {
    registry = registry_audit, surface = _assert_surface_audit;

    // ---- operator precedence of spliced bound expressions
    #[nutype(validate(greater = EIGHT >> 1), derive(Debug, Arbitrary))]
    struct I32GtShr(i32);
    family = "integer";
    model = |x| *x > 4;
    class = |s| class_num_str(s, Some(4.0), None);

    #[nutype(validate(greater_or_equal = 0, less = SIXTEEN >> 1), derive(Debug, Arbitrary))]
    struct I32GeLtShr(i32);
    family = "integer";
    model = |x| *x >= 0 && *x < 8;
    class = |s| class_num_str(s, Some(0.0), Some(8.0));

    #[nutype(validate(greater = THREE | 1, less = 100), derive(Debug, Arbitrary))]
    struct I32GtOrLt(i32);
    family = "integer";
    model = |x| *x > 3 && *x < 100;
    class = |s| class_num_str(s, Some(3.0), Some(100.0));

    #[nutype(validate(greater = A3 - B1, less = 4.0), derive(Debug, Arbitrary))]
    struct F64GtSubLt(f64);
    family = "float";
    model = |x| *x > 2.0 && *x < 4.0;
    class = |s| class_num_str(s, Some(2.0), Some(4.0));

    #[nutype(validate(greater_or_equal = A3 - B1, less_or_equal = 4.0), derive(Debug, Arbitrary))]
    struct F64GeSubLe(f64);
    family = "float";
    model = |x| *x >= 2.0 && *x <= 4.0;
    class = |s| class_num_str(s, Some(2.0), Some(4.0));

    #[nutype(validate(len_char_min = EIGHT_U >> 1), derive(Debug, Arbitrary))]
    struct StrMinShr(String);
    family = "string";
    model = |s| s.chars().count() >= 4;
    class = |s| str_class(s, Some(4), None);

    // ---- a leading minus on a constant
    #[nutype(validate(greater_or_equal = -EIGHT, less_or_equal = 0), derive(Debug, Arbitrary))]
    struct I32GeNegConst(i32);
    family = "integer";
    model = |x| *x >= -8 && *x <= 0;
    class = |s| class_num_str(s, Some(-8.0), Some(0.0));

    #[nutype(validate(greater_or_equal = -A3, less_or_equal = 0.0), derive(Debug, Arbitrary))]
    struct F64GeNegConst(f64);
    family = "float";
    model = |x| *x >= -3.0 && *x <= 0.0;
    class = |s| class_num_str(s, Some(-3.0), Some(0.0));

    // ---- half-open ranges one ulp wide (exactly one valid value)
    #[nutype(validate(greater = 1.0, less_or_equal = 1.0000001), derive(Debug, Arbitrary))]
    struct F32GtLeUlp(f32);
    family = "float";
    model = |x| *x > 1.0f32 && *x <= 1.0000001f32;
    class = |s| class_num_str(s, Some(1.0f32 as f64), Some(1.0000001f32 as f64));

    #[nutype(validate(greater_or_equal = 1.0000001, less = 1.0000002), derive(Debug, Arbitrary))]
    struct F32GeLtUlp(f32);
    family = "float";
    model = |x| *x >= 1.0000001f32 && *x < 1.0000002f32;
    class = |s| class_num_str(s, Some(1.0000001f32 as f64), Some(1.0000002f32 as f64));

    #[nutype(validate(greater = 1.0, less_or_equal = 1.0000000000000002), derive(Debug, Arbitrary))]
    struct F64GtLeUlp(f64);
    family = "float";
    model = |x| *x > 1.0 && *x <= 1.0000000000000002;
    class = |s| class_num_str(s, Some(1.0), Some(1.0000000000000002));

    #[nutype(validate(greater = 0.0, less_or_equal = 1e-45), derive(Debug, Arbitrary))]
    struct F32GtLeTiny(f32);
    family = "float";
    model = |x| *x > 0.0f32 && *x <= 1e-45f32;
    class = |s| class_num_str(s, Some(0.0), Some(1e-45f32 as f64));

    // ---- the same at boundaries whose mantissa is above 1.5, where `|x| * EPSILON` is nearly two
    //      steps (seeded change C09-u: the half-range limit applied to the fixed delta only)
    #[nutype(validate(greater = 1.75, less_or_equal = 1.7500001), derive(Debug, Arbitrary))]
    struct F32GtLeUlp175(f32);
    family = "float";
    model = |x| *x > 1.75f32 && *x <= 1.7500001f32;
    class = |s| class_num_str(s, Some(1.75), Some(1.7500001f32 as f64));

    #[nutype(validate(greater = 1.75, less = 1.7500002), derive(Debug, Arbitrary))]
    struct F32GtLt2Ulp175(f32);
    family = "float";
    model = |x| *x > 1.75f32 && *x < 1.7500002f32;
    class = |s| class_num_str(s, Some(1.75), Some(1.7500002f32 as f64));

    #[nutype(validate(greater_or_equal = 3.5, less = 3.5000002), derive(Debug, Arbitrary))]
    struct F32GeLtUlp35(f32);
    family = "float";
    model = |x| *x >= 3.5f32 && *x < 3.5000002f32;
    class = |s| class_num_str(s, Some(3.5), Some(3.5000002f32 as f64));

    #[nutype(validate(greater = 7.0, less_or_equal = 7.000000000000001), derive(Debug, Arbitrary))]
    struct F64GtLeUlp7(f64);
    family = "float";
    model = |x| *x > 7.0 && *x <= 7.000000000000001;
    class = |s| class_num_str(s, Some(7.0), Some(7.000000000000001));

    #[nutype(validate(greater = -7.000000000000002, less = -7.0), derive(Debug, Arbitrary))]
    struct F64GtLt2UlpNeg7(f64);
    family = "float";
    model = |x| *x > -7.000000000000002 && *x < -7.0;
    class = |s| class_num_str(s, Some(-7.000000000000002), Some(-7.0));

    // ---- `finite` with an exclusive bound one ulp from the type's limit (valid set = {MAX} / {MIN})
    #[nutype(validate(finite, greater = 3.4028233e38), derive(Debug, Arbitrary))]
    struct F32FinGtNearMax(f32);
    family = "float";
    model = |x| x.is_finite() && *x > 3.4028233e38f32;
    class = |s| class_num_str(s, Some(3.4028233e38f32 as f64), None);

    #[nutype(validate(finite, greater = 1.7976931348623155e308), derive(Debug, Arbitrary))]
    struct F64FinGtNearMax(f64);
    family = "float";
    model = |x| x.is_finite() && *x > 1.7976931348623155e308;
    class = |s| class_num_str(s, Some(1.7976931348623155e308), None);

    #[nutype(validate(finite, less = -3.4028233e38), derive(Debug, Arbitrary))]
    struct F32FinLtNearMin(f32);
    family = "float";
    model = |x| x.is_finite() && *x < -3.4028233e38f32;
    class = |s| class_num_str(s, None, Some(-3.4028233e38f32 as f64));

    // ---- sanitizers without validators (arbitrary goes through `new`): the value must be a fixed
    //      point of the declared sanitizer, for every family
    #[nutype(sanitize(with = |x: u8| x & !1), derive(Debug, Arbitrary))]
    struct U8EvenFree(u8);
    family = "integer";
    model = |x| *x % 2 == 0;
    class = |_s| "inside";

    #[nutype(sanitize(with = |x: i128| x.saturating_abs()), derive(Debug, Arbitrary))]
    struct I128AbsFree(i128);
    family = "integer";
    model = |x| *x >= 0;
    class = |_s| "inside";

    #[nutype(sanitize(with = |x: f32| x.abs()), derive(Debug, Arbitrary))]
    struct F32AbsFree(f32);
    family = "float";
    model = |x| x.is_nan() || x.is_sign_positive();
    class = |_s| "inside";

    #[nutype(sanitize(with = |s: String| s.replace(' ', "_")), derive(Debug, Arbitrary))]
    struct StrSnakeFree(String);
    family = "string";
    model = |s| !s.contains(' ');
    class = |_s| "inside";

    #[nutype(sanitize(with = |o: Option<u8>| o.map(|x| x.min(9))), derive(Debug, Arbitrary))]
    struct OptCapFree(Option<u8>);
    family = "any";
    model = |o| o.map_or(true, |x| x <= 9);
    class = |_s| "inside";

    // ---- Arbitrary next to Default (`default = ...`) and the other derives
    #[nutype(sanitize(trim), validate(not_empty, len_char_max = 20), default = "Anonymous", derive(Debug, Clone, PartialEq, Default, Arbitrary))]
    struct StrTrimDefault(String);
    family = "string";
    model = |s| { let n = s.chars().count(); n >= 1 && n <= 20 && s.trim() == s };
    class = |s| str_class(s, Some(1), Some(20));

    #[nutype(sanitize(trim, lowercase), validate(len_char_min = 2, len_char_max = 4), default = "abcd", derive(Debug, Clone, PartialEq, Eq, Hash, Display, FromStr, TryFrom, Into, AsRef, Deref, Default, Arbitrary))]
    struct StrTrimLowerDefault(String);
    family = "string";
    model = |s| { let n = s.chars().count(); n >= 2 && n <= 4 && s.trim() == s && s.to_lowercase() == *s };
    class = |s| str_class(s, Some(2), Some(4));

    #[nutype(validate(greater_or_equal = 10, less = 20), default = 15, derive(Debug, Clone, Copy, PartialEq, Eq, PartialOrd, Ord, Hash, Display, FromStr, TryFrom, Into, Default, Arbitrary))]
    struct I16Default(i16);
    family = "integer";
    model = |x| *x >= 10 && *x < 20;
    class = |s| class_num_str(s, Some(10.0), Some(20.0));

    #[nutype(validate(finite, greater = 0.0, less_or_equal = 1.0), default = 0.5, derive(Debug, Clone, Copy, PartialEq, PartialOrd, Display, FromStr, TryFrom, Into, Default, Arbitrary))]
    struct F64Default(f64);
    family = "float";
    model = |x| x.is_finite() && *x > 0.0 && *x <= 1.0;
    class = |s| class_num_str(s, Some(0.0), Some(1.0));

    // ---- `finite` with an infinite constant as a bound
    #[nutype(validate(finite, greater_or_equal = f64::NEG_INFINITY, less_or_equal = 0.0), derive(Debug, Arbitrary))]
    struct F64FinGeNegInfLe(f64);
    family = "float";
    model = |x| x.is_finite() && *x <= 0.0;
    class = |s| class_num_str(s, None, Some(0.0));

    #[nutype(validate(finite, greater = f64::NEG_INFINITY), derive(Debug, Arbitrary))]
    struct F64FinGtNegInf(f64);
    family = "float";
    model = |x| x.is_finite();
    class = |s| class_num_str(s, None, None);
}

/// Executed only through its recorded plan (never by the swarm): other byte sources make the
/// generator request an allocation of ~2^59 bytes, which aborts the process instead of unwinding.
#[nutype(validate(len_char_max = usize::MAX), derive(Debug, Arbitrary))]
pub struct StrMaxUsize(String);

pub fn registry_plan_only() -> Vec<ArbDecl> {
    vec![ArbDecl {
        name: "StrMaxUsize",
        family: "string",
        text: "validate(len_char_max = usize::MAX), derive(Debug, Arbitrary)",
        run: |bytes: &[u8], rest: bool| {
            let mut u = Unstructured::new(bytes);
            let res = if rest { <StrMaxUsize as Arbitrary>::arbitrary_take_rest(Unstructured::new(bytes)) } else { <StrMaxUsize as Arbitrary>::arbitrary(&mut u) };
                            match res {
                Ok(v) => {
                    let consumed = if rest { bytes.len() } else { bytes.len() - u.len() };
                    let inner: String = v.into_inner();
                    ArbOutcome::Value { valid: true, class: "inside", repr: format!("{:?}", inner), consumed }
                }
                Err(e) => ArbOutcome::ArbError(format!("{e:?}")),
            }
        },
        classify: |_s| "na",
    }]
}

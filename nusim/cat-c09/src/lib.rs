//! S-ARB catalogue (property C09): `#[nutype]` declarations deriving `Arbitrary`, each with a
//! hand-written validity model that does not go through the macro.
//!
//! This crate contains nothing but declarations, models and the registry. If it stops compiling
//! while `nutype`/`nutype_macros` themselves build, the macro's output for an accepted
//! declaration is broken and the check reports that under C09.
//!
//! Preconditions of C09 are honoured: every declaration here is accepted by the pinned macro and
//! has a non-empty valid set.

#![allow(clippy::all)]

use arbitrary::{Arbitrary, Unstructured};
use nutype::nutype;

pub enum ArbOutcome {
    /// `arbitrary` returned `Ok(v)`; `valid` is the verdict of the hand-written model.
    Value { repr: String, valid: bool, class: &'static str, consumed: usize },
    /// `arbitrary` returned `Err(arbitrary::Error)`.
    ArbError(String),
}

pub struct ArbDecl {
    pub name: &'static str,
    pub family: &'static str,
    /// The attribute as written.
    pub text: &'static str,
    /// `rest = true`: call `arbitrary_take_rest` (the entry point used for the last consumer of the
    /// input, e.g. by `fuzz_target!`) instead of `arbitrary`.
    pub run: fn(&[u8], bool) -> ArbOutcome,
    /// Classify an inner value printed with `{:?}` relative to the declared bounds
    /// (used only to compute cause signatures of violations).
    pub classify: fn(&str) -> &'static str,
}

pub const MIN_LEN: usize = 2;
pub const MAX_LEN: usize = 6;
pub const I16_LO: i16 = -300;
pub const I16_HI: i16 = 300;

fn class_num(x: f64, lo: Option<f64>, hi: Option<f64>) -> &'static str {
    if x.is_nan() {
        return "nan";
    }
    if x.is_infinite() {
        return "inf";
    }
    if let Some(lo) = lo {
        if x == lo {
            return "at_lower";
        }
        if x < lo {
            return "below_lower";
        }
    }
    if let Some(hi) = hi {
        if x == hi {
            return "at_upper";
        }
        if x > hi {
            return "above_upper";
        }
    }
    "inside"
}

fn class_num_str(s: &str, lo: Option<f64>, hi: Option<f64>) -> &'static str {
    match s.trim().parse::<f64>() {
        Ok(x) => class_num(x, lo, hi),
        Err(_) => "unparsed",
    }
}

fn class_len(n: usize, min: Option<usize>, max: Option<usize>) -> &'static str {
    if let Some(min) = min {
        if n < min {
            return if n == 0 { "empty" } else { "shorter_than_min" };
        }
    }
    if let Some(max) = max {
        if n > max {
            return "longer_than_max";
        }
    }
    "inside"
}

macro_rules! catalogue {
    (
        registry = $registry:ident, surface = $surface:ident;
        $(
            #[nutype( $($attr:tt)* )]
            struct $name:ident ( $($inner:tt)+ );
            family = $family:expr;
            model = $model:expr;
            class = $class:expr;
        )*
    ) => {
        $(
            #[nutype( $($attr)* )]
            pub struct $name( $($inner)+ );
        )*

        pub fn $registry() -> Vec<ArbDecl> {
            vec![
                $(
                    ArbDecl {
                        name: stringify!($name),
                        family: $family,
                        text: stringify!( $($attr)* ),
                        run: |bytes: &[u8], rest: bool| {
                            let mut u = Unstructured::new(bytes);
                            let res = if rest { <$name as Arbitrary>::arbitrary_take_rest(Unstructured::new(bytes)) } else { <$name as Arbitrary>::arbitrary(&mut u) };
                            match res {
                                Ok(v) => {
                                    let consumed = if rest { bytes.len() } else { bytes.len() - u.len() };
                                    let inner: $($inner)+ = v.into_inner();
                                    let model: fn(&$($inner)+) -> bool = $model;
                                    let repr = format!("{:?}", inner);
                                    let class: fn(&str) -> &'static str = $class;
                                    let c = class(&repr);
                                    ArbOutcome::Value { valid: model(&inner), class: c, repr, consumed }
                                }
                                Err(e) => ArbOutcome::ArbError(format!("{e:?}")),
                            }
                        },
                        classify: $class,
                    },
                )*
            ]
        }

        // The trait surface C09 presupposes.
        #[allow(dead_code)]
        fn $surface() {
            fn a<T: for<'a> Arbitrary<'a>>() {}
            $( a::<$name>(); )*
        }
    };
}

/// Undo `{:?}` of a `String` (enough of it: \\ \" \' \n \r \t \0 \u{..}).
fn undebug(repr: &str) -> String {
    let inner = repr.strip_prefix('"').and_then(|s| s.strip_suffix('"')).unwrap_or(repr);
    let mut out = String::new();
    let mut it = inner.chars();
    while let Some(c) = it.next() {
        if c != '\\' {
            out.push(c);
            continue;
        }
        match it.next() {
            Some('n') => out.push('\n'),
            Some('r') => out.push('\r'),
            Some('t') => out.push('\t'),
            Some('0') => out.push('\0'),
            Some('u') => {
                let mut hexs = String::new();
                for d in it.by_ref() {
                    if d == '}' {
                        break;
                    }
                    if d != '{' {
                        hexs.push(d);
                    }
                }
                if let Some(ch) = u32::from_str_radix(&hexs, 16).ok().and_then(char::from_u32) {
                    out.push(ch);
                }
            }
            Some(other) => out.push(other),
            None => {}
        }
    }
    out
}

fn str_class(repr: &str, min: Option<usize>, max: Option<usize>) -> &'static str {
    let s = undebug(repr);
    let n = s.chars().count();
    let expanding = s.chars().any(|c| c.to_uppercase().count() > 1 || c.to_lowercase().count() > 1);
    match (class_len(n, min, max), expanding) {
        ("inside", true) => "inside_with_case_expanding_char",
        (c, _) => c,
    }
}

catalogue! {
    registry = registry, surface = _assert_surface;
    // ------------------------------------------------------------------ integers
    #[nutype(validate(greater_or_equal = 3, less_or_equal = 17), derive(Debug, Arbitrary))]
    struct U8Incl(u8);
    family = "integer";
    model = |x| *x >= 3 && *x <= 17;
    class = |s| class_num_str(s, Some(3.0), Some(17.0));

    #[nutype(validate(greater = 0, less = 255), derive(Debug, Arbitrary))]
    struct U8Excl(u8);
    family = "integer";
    model = |x| *x > 0 && *x < 255;
    class = |s| class_num_str(s, Some(0.0), Some(255.0));

    #[nutype(derive(Debug, Arbitrary))]
    struct I8Free(i8);
    family = "integer";
    model = |_x| true;
    class = |s| class_num_str(s, None, None);

    #[nutype(validate(greater = -5), derive(Debug, Arbitrary))]
    struct I32Gt(i32);
    family = "integer";
    model = |x| *x > -5;
    class = |s| class_num_str(s, Some(-5.0), None);

    #[nutype(validate(less = 1000), derive(Debug, Arbitrary))]
    struct I32Lt(i32);
    family = "integer";
    model = |x| *x < 1000;
    class = |s| class_num_str(s, None, Some(1000.0));

    #[nutype(validate(greater = -1_000_000_000_000, less_or_equal = 5), derive(Debug, Arbitrary))]
    struct I64Both(i64);
    family = "integer";
    model = |x| *x > -1_000_000_000_000i64 && *x <= 5;
    class = |s| class_num_str(s, Some(-1e12), Some(5.0));

    #[nutype(validate(less_or_equal = u64::MAX - 5), derive(Debug, Arbitrary))]
    struct U64NearMax(u64);
    family = "integer";
    model = |x| *x <= 18446744073709551610u64;
    class = |s| class_num_str(s, None, None);

    #[nutype(validate(greater_or_equal = u64::MAX - 1), derive(Debug, Arbitrary))]
    struct U64Top2(u64);
    family = "integer";
    model = |x| *x >= 18446744073709551614u64;
    class = |s| class_num_str(s, None, None);

    #[nutype(validate(greater = u16::MAX - 1), derive(Debug, Arbitrary))]
    struct U16OnlyMax(u16);
    family = "integer";
    model = |x| *x == 65535;
    class = |s| class_num_str(s, Some(65534.0), None);

    #[nutype(validate(less = i8::MIN + 1), derive(Debug, Arbitrary))]
    struct I8OnlyMin(i8);
    family = "integer";
    model = |x| *x == -128;
    class = |s| class_num_str(s, None, Some(-127.0));

    #[nutype(validate(greater_or_equal = i128::MIN, less = 0), derive(Debug, Arbitrary))]
    struct I128Neg(i128);
    family = "integer";
    model = |x| *x < 0;
    class = |s| class_num_str(s, None, Some(0.0));

    #[nutype(validate(greater = (1u128 << 100)), derive(Debug, Arbitrary))]
    struct U128Big(u128);
    family = "integer";
    model = |x| *x > 1267650600228229401496703205376u128;
    class = |s| class_num_str(s, None, None);

    #[nutype(validate(greater_or_equal = 7, less_or_equal = 7), derive(Debug, Arbitrary))]
    struct UsizeSingle(usize);
    family = "integer";
    model = |x| *x == 7;
    class = |s| class_num_str(s, Some(7.0), Some(7.0));

    #[nutype(validate(greater = 6, less = 8), derive(Debug, Arbitrary))]
    struct IsizeSingleExcl(isize);
    family = "integer";
    model = |x| *x == 7;
    class = |s| class_num_str(s, Some(6.0), Some(8.0));

    #[nutype(validate(greater_or_equal = I16_LO, less = I16_HI), derive(Debug, Arbitrary))]
    struct I16Const(i16);
    family = "integer";
    model = |x| *x >= -300 && *x < 300;
    class = |s| class_num_str(s, Some(-300.0), Some(300.0));

    #[nutype(validate(less_or_equal = -100, greater_or_equal = -200), derive(Debug, Arbitrary))]
    struct I32NegRangeReordered(i32);
    family = "integer";
    model = |x| *x >= -200 && *x <= -100;
    class = |s| class_num_str(s, Some(-200.0), Some(-100.0));

    #[nutype(sanitize(with = |x: i32| x.wrapping_abs()), derive(Debug, Arbitrary))]
    struct I32AbsFree(i32);
    family = "integer";
    model = |x| *x >= 0 || *x == i32::MIN;
    class = |s| class_num_str(s, None, None);

    // ------------------------------------------------------------------ floats
    #[nutype(validate(finite), derive(Debug, Arbitrary))]
    struct F64Finite(f64);
    family = "float";
    model = |x| x.is_finite();
    class = |s| class_num_str(s, None, None);

    #[nutype(validate(finite), derive(Debug, Arbitrary))]
    struct F32Finite(f32);
    family = "float";
    model = |x| x.is_finite();
    class = |s| class_num_str(s, None, None);

    #[nutype(derive(Debug, Arbitrary))]
    struct F32Free(f32);
    family = "float";
    model = |_x| true;
    class = |s| class_num_str(s, None, None);

    #[nutype(sanitize(with = |x: f64| x.clamp(-1.0, 1.0)), derive(Debug, Arbitrary))]
    struct F64ClampFree(f64);
    family = "float";
    model = |x| x.is_nan() || (*x >= -1.0 && *x <= 1.0);
    class = |s| class_num_str(s, Some(-1.0), Some(1.0));

    #[nutype(validate(finite, greater_or_equal = 0.0, less_or_equal = 1.0), derive(Debug, Arbitrary))]
    struct F32Unit(f32);
    family = "float";
    model = |x| x.is_finite() && *x >= 0.0 && *x <= 1.0;
    class = |s| class_num_str(s, Some(0.0), Some(1.0));

    #[nutype(validate(greater_or_equal = -10.5, less_or_equal = 20.25), derive(Debug, Arbitrary))]
    struct F64InclIncl(f64);
    family = "float";
    model = |x| *x >= -10.5 && *x <= 20.25;
    class = |s| class_num_str(s, Some(-10.5), Some(20.25));

    #[nutype(validate(finite, greater_or_equal = 0.0, less = 100.0), derive(Debug, Arbitrary))]
    struct F64GeLt(f64);
    family = "float";
    model = |x| x.is_finite() && *x >= 0.0 && *x < 100.0;
    class = |s| class_num_str(s, Some(0.0), Some(100.0));

    #[nutype(validate(greater_or_equal = 0.0, less = 1.0), derive(Debug, Arbitrary))]
    struct F32GeLt(f32);
    family = "float";
    model = |x| *x >= 0.0 && *x < 1.0;
    class = |s| class_num_str(s, Some(0.0), Some(1.0));

    #[nutype(validate(greater = -1.0, less_or_equal = 1.0), derive(Debug, Arbitrary))]
    struct F32GtLe(f32);
    family = "float";
    model = |x| *x > -1.0 && *x <= 1.0;
    class = |s| class_num_str(s, Some(-1.0), Some(1.0));

    #[nutype(validate(greater = 0.0, less = 1.0), derive(Debug, Arbitrary))]
    struct F64GtLt(f64);
    family = "float";
    model = |x| *x > 0.0 && *x < 1.0;
    class = |s| class_num_str(s, Some(0.0), Some(1.0));

    #[nutype(validate(greater = 100.0, less = 200.0), derive(Debug, Arbitrary))]
    struct F32GtLtMid(f32);
    family = "float";
    model = |x| *x > 100.0 && *x < 200.0;
    class = |s| class_num_str(s, Some(100.0), Some(200.0));

    #[nutype(validate(greater = -2000.0, less = -1000.0), derive(Debug, Arbitrary))]
    struct F64GtLtNeg(f64);
    family = "float";
    model = |x| *x > -2000.0 && *x < -1000.0;
    class = |s| class_num_str(s, Some(-2000.0), Some(-1000.0));

    #[nutype(validate(greater_or_equal = -0.1, less_or_equal = 0.7), derive(Debug, Arbitrary))]
    struct F32MixedSign(f32);
    family = "float";
    model = |x| *x >= -0.1f32 && *x <= 0.7f32;
    class = |s| class_num_str(s, Some(-0.1f32 as f64), Some(0.7f32 as f64));

    #[nutype(validate(greater_or_equal = -0.1, less_or_equal = 0.7), derive(Debug, Arbitrary))]
    struct F64MixedSign(f64);
    family = "float";
    model = |x| *x >= -0.1 && *x <= 0.7;
    class = |s| class_num_str(s, Some(-0.1), Some(0.7));

    #[nutype(validate(greater_or_equal = 0.1, less_or_equal = 0.3), derive(Debug, Arbitrary))]
    struct F64Tenths(f64);
    family = "float";
    model = |x| *x >= 0.1 && *x <= 0.3;
    class = |s| class_num_str(s, Some(0.1), Some(0.3));

    #[nutype(validate(greater_or_equal = 1.0, less_or_equal = 1.000001), derive(Debug, Arbitrary))]
    struct F32Narrow(f32);
    family = "float";
    model = |x| *x >= 1.0f32 && *x <= 1.000001f32;
    class = |s| class_num_str(s, Some(1.0), Some(1.000001f32 as f64));

    #[nutype(validate(greater = 0.0, less = 0.001), derive(Debug, Arbitrary))]
    struct F64NarrowExcl(f64);
    family = "float";
    model = |x| *x > 0.0 && *x < 0.001;
    class = |s| class_num_str(s, Some(0.0), Some(0.001));

    #[nutype(validate(greater = 1.0), derive(Debug, Arbitrary))]
    struct F32Gt1(f32);
    family = "float";
    model = |x| *x > 1.0;
    class = |s| class_num_str(s, Some(1.0), None);

    #[nutype(validate(greater = 0.0), derive(Debug, Arbitrary))]
    struct F64Gt0(f64);
    family = "float";
    model = |x| *x > 0.0;
    class = |s| class_num_str(s, Some(0.0), None);

    #[nutype(validate(greater = 100.0), derive(Debug, Arbitrary))]
    struct F32Gt100(f32);
    family = "float";
    model = |x| *x > 100.0;
    class = |s| class_num_str(s, Some(100.0), None);

    #[nutype(validate(greater = 1000.0), derive(Debug, Arbitrary))]
    struct F64Gt1000(f64);
    family = "float";
    model = |x| *x > 1000.0;
    class = |s| class_num_str(s, Some(1000.0), None);

    #[nutype(validate(less = -100.0), derive(Debug, Arbitrary))]
    struct F64LtNeg100(f64);
    family = "float";
    model = |x| *x < -100.0;
    class = |s| class_num_str(s, None, Some(-100.0));

    #[nutype(validate(less = 0.0), derive(Debug, Arbitrary))]
    struct F32Lt0(f32);
    family = "float";
    model = |x| *x < 0.0;
    class = |s| class_num_str(s, None, Some(0.0));

    #[nutype(validate(greater_or_equal = -5.5), derive(Debug, Arbitrary))]
    struct F64Ge(f64);
    family = "float";
    model = |x| *x >= -5.5;
    class = |s| class_num_str(s, Some(-5.5), None);

    #[nutype(validate(less_or_equal = 1e30), derive(Debug, Arbitrary))]
    struct F32Le(f32);
    family = "float";
    model = |x| *x <= 1e30f32;
    class = |s| class_num_str(s, None, Some(1e30f32 as f64));

    #[nutype(validate(finite, greater = 0.0), derive(Debug, Arbitrary))]
    struct F64FiniteGt0(f64);
    family = "float";
    model = |x| x.is_finite() && *x > 0.0;
    class = |s| class_num_str(s, Some(0.0), None);

    #[nutype(validate(finite, less_or_equal = -1.0), derive(Debug, Arbitrary))]
    struct F32FiniteLe(f32);
    family = "float";
    model = |x| x.is_finite() && *x <= -1.0;
    class = |s| class_num_str(s, None, Some(-1.0));

    #[nutype(validate(finite, greater_or_equal = 1e300), derive(Debug, Arbitrary))]
    struct F64FiniteGeHuge(f64);
    family = "float";
    model = |x| x.is_finite() && *x >= 1e300;
    class = |s| class_num_str(s, Some(1e300), None);

    #[nutype(validate(finite, greater_or_equal = -1e308, less_or_equal = 1e308), derive(Debug, Arbitrary))]
    struct F64HugeRange(f64);
    family = "float";
    model = |x| x.is_finite() && *x >= -1e308 && *x <= 1e308;
    class = |s| class_num_str(s, Some(-1e308), Some(1e308));

    #[nutype(validate(greater_or_equal = 0.1, less_or_equal = 0.1), derive(Debug, Arbitrary))]
    struct F64Single01(f64);
    family = "float";
    model = |x| *x == 0.1;
    class = |s| class_num_str(s, Some(0.1f64 as f64), Some(0.1f64 as f64));

    #[nutype(validate(greater_or_equal = 36.6, less_or_equal = 36.6), derive(Debug, Arbitrary))]
    struct F32Single366(f32);
    family = "float";
    model = |x| *x == 36.6f32;
    class = |s| class_num_str(s, Some(36.6f32 as f64), Some(36.6f32 as f64));

    #[nutype(validate(greater_or_equal = 36.6, less_or_equal = 41.1), derive(Debug, Arbitrary))]
    struct F32BodyTemp(f32);
    family = "float";
    model = |x| *x >= 36.6f32 && *x <= 41.1f32;
    class = |s| class_num_str(s, Some(36.6f32 as f64), Some(41.1f32 as f64));

    #[nutype(validate(finite, greater_or_equal = 36.6, less_or_equal = 41.1), derive(Debug, Arbitrary))]
    struct F64BodyTemp(f64);
    family = "float";
    model = |x| x.is_finite() && *x >= 36.6 && *x <= 41.1;
    class = |s| class_num_str(s, Some(36.6f64 as f64), Some(41.1f64 as f64));

    #[nutype(validate(greater_or_equal = -41.1, less_or_equal = -36.6), derive(Debug, Arbitrary))]
    struct F64NegBody(f64);
    family = "float";
    model = |x| *x >= -41.1 && *x <= -36.6;
    class = |s| class_num_str(s, Some(-41.1f64 as f64), Some(-36.6f64 as f64));

    #[nutype(validate(greater_or_equal = 0.7, less_or_equal = 0.9), derive(Debug, Arbitrary))]
    struct F64Sevenths(f64);
    family = "float";
    model = |x| *x >= 0.7 && *x <= 0.9;
    class = |s| class_num_str(s, Some(0.7f64 as f64), Some(0.9f64 as f64));

    #[nutype(validate(greater = 0.3, less = 0.6), derive(Debug, Arbitrary))]
    struct F32Thirds(f32);
    family = "float";
    model = |x| *x > 0.3f32 && *x < 0.6f32;
    class = |s| class_num_str(s, Some(0.3f32 as f64), Some(0.6f32 as f64));

    #[nutype(validate(greater_or_equal = 1000000.1, less_or_equal = 1000000.2), derive(Debug, Arbitrary))]
    struct F64LargeNarrow(f64);
    family = "float";
    model = |x| *x >= 1000000.1 && *x <= 1000000.2;
    class = |s| class_num_str(s, Some(1000000.1f64 as f64), Some(1000000.2f64 as f64));

    #[nutype(validate(greater_or_equal = 1e-30, less_or_equal = 3e-30), derive(Debug, Arbitrary))]
    struct F32TinyRange(f32);
    family = "float";
    model = |x| *x >= 1e-30f32 && *x <= 3e-30f32;
    class = |s| class_num_str(s, Some(1e-30f32 as f64), Some(3e-30f32 as f64));

    #[nutype(validate(greater_or_equal = 0.0, less_or_equal = 1e-310), derive(Debug, Arbitrary))]
    struct F64SubnormalRange(f64);
    family = "float";
    model = |x| *x >= 0.0 && *x <= 1e-310;
    class = |s| class_num_str(s, Some(0.0f64 as f64), Some(1e-310f64 as f64));

    #[nutype(validate(greater_or_equal = -0.3, less_or_equal = 0.0), derive(Debug, Arbitrary))]
    struct F32NegToZero(f32);
    family = "float";
    model = |x| *x >= -0.3f32 && *x <= 0.0;
    class = |s| class_num_str(s, Some(-0.3f32 as f64), Some(0.0f32 as f64));

    #[nutype(validate(greater = 0.0, less_or_equal = 0.3), derive(Debug, Arbitrary))]
    struct F64ZeroToPos(f64);
    family = "float";
    model = |x| *x > 0.0 && *x <= 0.3;
    class = |s| class_num_str(s, Some(0.0f64 as f64), Some(0.3f64 as f64));

    #[nutype(validate(greater_or_equal = -0.0, less_or_equal = 0.0), derive(Debug, Arbitrary))]
    struct F64AroundZero(f64);
    family = "float";
    model = |x| *x == 0.0;
    class = |s| class_num_str(s, Some(0.0f64 as f64), Some(0.0f64 as f64));

    #[nutype(validate(greater_or_equal = 0.1), derive(Debug, Arbitrary))]
    struct F32Ge01(f32);
    family = "float";
    model = |x| *x >= 0.1f32;
    class = |s| class_num_str(s, Some(0.1f32 as f64), None);

    #[nutype(validate(less_or_equal = -0.7), derive(Debug, Arbitrary))]
    struct F64LeNeg07(f64);
    family = "float";
    model = |x| *x <= -0.7;
    class = |s| class_num_str(s, None, Some(-0.7f64 as f64));

    #[nutype(validate(greater = 36.6), derive(Debug, Arbitrary))]
    struct F32Gt366(f32);
    family = "float";
    model = |x| *x > 36.6f32;
    class = |s| class_num_str(s, Some(36.6f32 as f64), None);

    #[nutype(validate(less = 0.1), derive(Debug, Arbitrary))]
    struct F64Lt01(f64);
    family = "float";
    model = |x| *x < 0.1;
    class = |s| class_num_str(s, None, Some(0.1f64 as f64));

    #[nutype(validate(finite, less = 0.1), derive(Debug, Arbitrary))]
    struct F64FiniteLt01(f64);
    family = "float";
    model = |x| x.is_finite() && *x < 0.1;
    class = |s| class_num_str(s, None, Some(0.1f64 as f64));

    #[nutype(validate(finite, greater_or_equal = 0.1), derive(Debug, Arbitrary))]
    struct F32FiniteGe01(f32);
    family = "float";
    model = |x| x.is_finite() && *x >= 0.1f32;
    class = |s| class_num_str(s, Some(0.1f32 as f64), None);

    #[nutype(validate(finite, greater_or_equal = -1e15, less_or_equal = 1e-3), derive(Debug, Arbitrary))]
    struct F64WideMixed(f64);
    family = "float";
    model = |x| x.is_finite() && *x >= -1e15 && *x <= 1e-3;
    class = |s| class_num_str(s, Some(-1e15f64 as f64), Some(1e-3f64 as f64));

    #[nutype(validate(greater = 999.9, less_or_equal = 1000.1), derive(Debug, Arbitrary))]
    struct F32ThousandRange(f32);
    family = "float";
    model = |x| *x > 999.9f32 && *x <= 1000.1f32;
    class = |s| class_num_str(s, Some(999.9f32 as f64), Some(1000.1f32 as f64));

    #[nutype(validate(greater_or_equal = core::f64::consts::E, less = core::f64::consts::PI), derive(Debug, Arbitrary))]
    struct F64ExprBounds(f64);
    family = "float";
    model = |x| *x >= core::f64::consts::E && *x < core::f64::consts::PI;
    class = |s| class_num_str(s, Some(core::f64::consts::E as f64), Some(core::f64::consts::PI as f64));

    #[nutype(validate(greater_or_equal = -128, less_or_equal = -128), derive(Debug, Arbitrary))]
    struct I8OnlyMinIncl(i8);
    family = "integer";
    model = |x| *x == -128;
    class = |s| class_num_str(s, Some(-128 as f64), Some(-128 as f64));

    #[nutype(validate(greater_or_equal = 4294967295), derive(Debug, Arbitrary))]
    struct U32OnlyMax(u32);
    family = "integer";
    model = |x| *x == u32::MAX;
    class = |s| class_num_str(s, Some(4294967295u32 as f64), None);

    #[nutype(validate(greater = i64::MAX - 1), derive(Debug, Arbitrary))]
    struct I64GtMaxMinus1(i64);
    family = "integer";
    model = |x| *x == i64::MAX;
    class = |s| class_num_str(s, None, None);

    #[nutype(validate(less = i64::MIN + 1), derive(Debug, Arbitrary))]
    struct I64LtMinPlus1(i64);
    family = "integer";
    model = |x| *x == i64::MIN;
    class = |s| class_num_str(s, None, None);

    #[nutype(validate(greater = -3, less = 3), derive(Debug, Arbitrary))]
    struct I16MixedExcl(i16);
    family = "integer";
    model = |x| *x > -3 && *x < 3;
    class = |s| class_num_str(s, Some(-3 as f64), Some(3 as f64));

    #[nutype(validate(greater_or_equal = 250, less = 255), derive(Debug, Arbitrary))]
    struct U8GeLt(u8);
    family = "integer";
    model = |x| *x >= 250 && *x < 255;
    class = |s| class_num_str(s, Some(250 as f64), Some(255 as f64));

    #[nutype(validate(greater = 2147483600, less_or_equal = 2147483647), derive(Debug, Arbitrary))]
    struct I32GtLe(i32);
    family = "integer";
    model = |x| *x > 2147483600;
    class = |s| class_num_str(s, Some(2147483600 as f64), None);

    #[nutype(validate(less = 1), derive(Debug, Arbitrary))]
    struct UsizeLt1(usize);
    family = "integer";
    model = |x| *x == 0;
    class = |s| class_num_str(s, None, Some(1 as f64));

    #[nutype(validate(greater_or_equal = -1, less_or_equal = 1), derive(Debug, Arbitrary))]
    struct I128Around0(i128);
    family = "integer";
    model = |x| *x >= -1 && *x <= 1;
    class = |s| class_num_str(s, Some(-1 as f64), Some(1 as f64));

    #[nutype(validate(less = (1u64 << 40)), derive(Debug, Arbitrary))]
    struct U64ShiftExpr(u64);
    family = "integer";
    model = |x| *x < (1u64 << 40);
    class = |s| class_num_str(s, None, None);

    // ------------------------------------------------------------------ strings
    #[nutype(derive(Debug, Arbitrary))]
    struct SFree(String);
    family = "string";
    model = |_s| true;
    class = |s| str_class(s, None, None);

    #[nutype(sanitize(trim, lowercase), derive(Debug, Arbitrary))]
    struct SFreeSanitized(String);
    family = "string";
    model = |s| *s == s.trim().to_lowercase();
    class = |s| str_class(s, None, None);

    #[nutype(validate(not_empty), derive(Debug, Arbitrary))]
    struct SNotEmpty(String);
    family = "string";
    model = |s| !s.is_empty();
    class = |s| str_class(s, Some(1), None);

    #[nutype(validate(len_char_min = 3), derive(Debug, Arbitrary))]
    struct SMin3(String);
    family = "string";
    model = |s| s.chars().count() >= 3;
    class = |s| str_class(s, Some(3), None);

    #[nutype(validate(len_char_max = 5), derive(Debug, Arbitrary))]
    struct SMax5(String);
    family = "string";
    model = |s| s.chars().count() <= 5;
    class = |s| str_class(s, None, Some(5));

    #[nutype(validate(len_char_min = MIN_LEN, len_char_max = MAX_LEN), derive(Debug, Arbitrary))]
    struct SConstBounds(String);
    family = "string";
    model = |s| { let n = s.chars().count(); n >= 2 && n <= 6 };
    class = |s| str_class(s, Some(2), Some(6));

    #[nutype(validate(len_char_max = 4, len_char_min = 4), derive(Debug, Arbitrary))]
    struct SExactly4(String);
    family = "string";
    model = |s| s.chars().count() == 4;
    class = |s| str_class(s, Some(4), Some(4));

    #[nutype(validate(len_char_max = 0), derive(Debug, Arbitrary))]
    struct SOnlyEmpty(String);
    family = "string";
    model = |s| s.is_empty();
    class = |s| str_class(s, None, Some(0));

    #[nutype(sanitize(trim), validate(not_empty), derive(Debug, Arbitrary))]
    struct STrimNotEmpty(String);
    family = "string";
    model = |s| !s.is_empty();
    class = |s| str_class(s, Some(1), None);

    #[nutype(sanitize(trim), validate(len_char_min = 3, len_char_max = 6), derive(Debug, Arbitrary))]
    struct STrimMinMax(String);
    family = "string";
    model = |s| { let n = s.chars().count(); n >= 3 && n <= 6 };
    class = |s| str_class(s, Some(3), Some(6));

    #[nutype(sanitize(trim), validate(len_char_max = 3), derive(Debug, Arbitrary))]
    struct STrimMax3(String);
    family = "string";
    model = |s| s.chars().count() <= 3;
    class = |s| str_class(s, None, Some(3));

    #[nutype(sanitize(trim), validate(len_char_min = 20), derive(Debug, Arbitrary))]
    struct STrimMin20(String);
    family = "string";
    model = |s| s.chars().count() >= 20;
    class = |s| str_class(s, Some(20), None);

    #[nutype(sanitize(lowercase), validate(len_char_min = 2), derive(Debug, Arbitrary))]
    struct SLowerMin2(String);
    family = "string";
    model = |s| s.chars().count() >= 2;
    class = |s| str_class(s, Some(2), None);

    #[nutype(sanitize(uppercase), validate(not_empty), derive(Debug, Arbitrary))]
    struct SUpperNotEmpty(String);
    family = "string";
    model = |s| !s.is_empty();
    class = |s| str_class(s, Some(1), None);

    #[nutype(sanitize(lowercase), validate(len_char_max = 10), derive(Debug, Arbitrary))]
    struct SLowerMax10(String);
    family = "string";
    model = |s| s.chars().count() <= 10;
    class = |s| str_class(s, None, Some(10));

    #[nutype(sanitize(uppercase), validate(len_char_max = 10), derive(Debug, Arbitrary))]
    struct SUpperMax10(String);
    family = "string";
    model = |s| s.chars().count() <= 10;
    class = |s| str_class(s, None, Some(10));

    #[nutype(sanitize(trim, lowercase), validate(not_empty, len_char_max = 20), derive(Debug, Arbitrary))]
    struct STrimLowerNotEmptyMax20(String);
    family = "string";
    model = |s| { let n = s.chars().count(); !s.is_empty() && n <= 20 };
    class = |s| str_class(s, Some(1), Some(20));

    #[nutype(validate(not_empty, len_char_min = 5), derive(Debug, Arbitrary))]
    struct SNotEmptyThenMin5(String);
    family = "string";
    model = |s| !s.is_empty() && s.chars().count() >= 5;
    class = |s| str_class(s, Some(5), None);

    #[nutype(validate(len_char_min = 5, not_empty), derive(Debug, Arbitrary))]
    struct SMin5ThenNotEmpty(String);
    family = "string";
    model = |s| !s.is_empty() && s.chars().count() >= 5;
    class = |s| str_class(s, Some(5), None);

    #[nutype(validate(not_empty, len_char_min = MIN_LEN), derive(Debug, Arbitrary))]
    struct SNotEmptyThenMinConst(String);
    family = "string";
    model = |s| !s.is_empty() && s.chars().count() >= 2;
    class = |s| str_class(s, Some(2), None);

    #[nutype(validate(len_char_min = 0, not_empty), derive(Debug, Arbitrary))]
    struct SMin0ThenNotEmpty(String);
    family = "string";
    model = |s| !s.is_empty();
    class = |s| str_class(s, Some(1), None);

    #[nutype(validate(len_char_min = 17), derive(Debug, Arbitrary))]
    struct SMin17(String);
    family = "string";
    model = |s| s.chars().count() >= 17;
    class = |s| str_class(s, Some(17), None);

    #[nutype(validate(len_char_min = MIN_LEN + 1), derive(Debug, Arbitrary))]
    struct SMinExpr(String);
    family = "string";
    model = |s| s.chars().count() >= 3;
    class = |s| str_class(s, Some(3), None);

    #[nutype(validate(len_char_min = MIN_LEN, len_char_max = MAX_LEN * 2), derive(Debug, Arbitrary))]
    struct SMaxExpr(String);
    family = "string";
    model = |s| { let n = s.chars().count(); n >= 2 && n <= 12 };
    class = |s| str_class(s, Some(2), Some(12));

    #[nutype(validate(len_char_min = MAX_LEN, len_char_max = MAX_LEN), derive(Debug, Arbitrary))]
    struct SExactConst(String);
    family = "string";
    model = |s| s.chars().count() == 6;
    class = |s| str_class(s, Some(6), Some(6));

    #[nutype(validate(not_empty, len_char_max = 1), derive(Debug, Arbitrary))]
    struct SExactlyOne(String);
    family = "string";
    model = |s| s.chars().count() == 1;
    class = |s| str_class(s, Some(1), Some(1));

    #[nutype(sanitize(trim), validate(len_char_min = 1, len_char_max = 1), derive(Debug, Arbitrary))]
    struct STrimExactlyOne(String);
    family = "string";
    model = |s| s.chars().count() == 1;
    class = |s| str_class(s, Some(1), Some(1));

    #[nutype(sanitize(uppercase, trim), validate(len_char_min = 3, len_char_max = 40), derive(Debug, Arbitrary))]
    struct SUpperTrimWide(String);
    family = "string";
    model = |s| { let n = s.chars().count(); n >= 3 && n <= 40 };
    class = |s| str_class(s, Some(3), Some(40));

    #[nutype(validate(len_char_max = 300), derive(Debug, Arbitrary))]
    struct SMax300(String);
    family = "string";
    model = |s| s.chars().count() <= 300;
    class = |s| str_class(s, None, Some(300));

    #[nutype(validate(len_char_min = 150), derive(Debug, Arbitrary))]
    struct SMin150(String);
    family = "string";
    model = |s| s.chars().count() >= 150;
    class = |s| str_class(s, Some(150), None);

    #[nutype(sanitize(trim), validate(len_char_min = 200, len_char_max = 300), derive(Debug, Arbitrary))]
    struct STrimMin200Max300(String);
    family = "string";
    model = |s| { let n = s.chars().count(); n >= 200 && n <= 300 };
    class = |s| str_class(s, Some(200), Some(300));

    #[nutype(validate(len_char_min = MAX_LEN * 50), derive(Debug, Arbitrary))]
    struct SMinExpr300(String);
    family = "string";
    model = |s| s.chars().count() >= 300;
    class = |s| str_class(s, Some(300), None);

    #[nutype(sanitize(trim), validate(not_empty, len_char_max = 2), derive(Debug, Arbitrary))]
    struct STrimNotEmptyMax2(String);
    family = "string";
    model = |s| { let n = s.chars().count(); n >= 1 && n <= 2 };
    class = |s| str_class(s, Some(1), Some(2));

    // ------------------------------------------------------------------ other inner types
    #[nutype(derive(Debug, Arbitrary))]
    struct AnyVec(Vec<u8>);
    family = "any";
    model = |_v| true;
    class = |_s| "inside";

    #[nutype(sanitize(with = |mut v: Vec<i16>| { v.sort(); v }), derive(Debug, Arbitrary))]
    struct AnySortedVec(Vec<i16>);
    family = "any";
    model = |v| v.windows(2).all(|w| w[0] <= w[1]);
    class = |_s| "inside";

    #[nutype(derive(Debug, Arbitrary))]
    struct AnyOptPair(Option<(u8, bool)>);
    family = "any";
    model = |_v| true;
    class = |_s| "inside";
}

// A generic unvalidated newtype (the macro emits `Arbitrary<'nu_arb>` with bounds on `T`).
#[nutype(derive(Debug, Arbitrary))]
pub struct AnyGeneric<T>(T);

// A generic newtype WITH a sanitizer: Arbitrary goes through `new`. (A parameter with a trait bound,
// e.g. `SortedSet<T: Ord>`, cannot derive Arbitrary on the pinned tree at all: the generated impl
// drops the bound and rustc rejects it - not a C09 matter, so no such declaration here.)
#[nutype(sanitize(with = |mut v: Vec<T>| { v.truncate(2); v }), derive(Debug, Arbitrary))]
pub struct AtMostTwo<T>(Vec<T>);

pub fn registry_generic() -> Vec<ArbDecl> {
    vec![ArbDecl {
        name: "AtMostTwo<u16>",
        family: "any",
        text: "sanitize(with = |mut v: Vec<T>| { v.truncate(2); v }), derive(Debug, Arbitrary)  // struct AtMostTwo<T>(Vec<T>), T = u16",
        run: |bytes: &[u8], rest: bool| {
            let mut u = Unstructured::new(bytes);
            let res = if rest { <AtMostTwo<u16> as Arbitrary>::arbitrary_take_rest(Unstructured::new(bytes)) } else { <AtMostTwo<u16> as Arbitrary>::arbitrary(&mut u) };
            match res {
                Ok(v) => {
                    let consumed = if rest { bytes.len() } else { bytes.len() - u.len() };
                    let inner = v.into_inner();
                    ArbOutcome::Value { repr: format!("{:?}", inner), valid: inner.len() <= 2, class: "inside", consumed }
                }
                Err(e) => ArbOutcome::ArbError(format!("{e:?}")),
            }
        },
        classify: |_s| "inside",
    }, ArbDecl {
        name: "AnyGeneric<(u16,String)>",
        family: "any",
        text: "derive(Debug, Arbitrary)  // struct AnyGeneric<T>(T), T = (u16, String)",
        run: |bytes: &[u8], rest: bool| {
            let mut u = Unstructured::new(bytes);
            let res = if rest { <AnyGeneric<(u16, String)> as Arbitrary>::arbitrary_take_rest(Unstructured::new(bytes)) } else { <AnyGeneric<(u16, String)> as Arbitrary>::arbitrary(&mut u) };
                            match res {
                Ok(v) => {
                    let consumed = if rest { bytes.len() } else { bytes.len() - u.len() };
                    let inner = v.into_inner();
                    ArbOutcome::Value {
                        repr: format!("{:?}", inner),
                        valid: true,
                        class: "inside",
                        consumed,
                    }
                }
                Err(e) => ArbOutcome::ArbError(format!("{e:?}")),
            }
        },
        classify: |_s| "inside",
    }]
}

#[cfg(feature = "questionable")]
mod questionable {
    use super::*;
    #[nutype(sanitize(with = |x: i32| x.wrapping_abs()), validate(less_or_equal = 100), derive(Debug, Arbitrary))]
    pub struct I32AbsThenLe(i32);

    /// Works today (the sanitizer keeps generated values inside the valid range), but relies on the
    /// same acceptance of `with` sanitizer + validators + Arbitrary for integers.
    #[nutype(sanitize(with = |x: i32| x.clamp(0, 100)), validate(less_or_equal = 100), derive(Debug, Arbitrary))]
    pub struct I32ClampThenLe(i32);

    pub fn registry_questionable() -> Vec<ArbDecl> {
        vec![ArbDecl {
            name: "I32ClampThenLe",
            family: "integer",
            text: "sanitize(with = |x: i32| x.clamp(0, 100)), validate(less_or_equal = 100), derive(Debug, Arbitrary)",
            run: |bytes: &[u8], rest: bool| {
                let mut u = Unstructured::new(bytes);
                let res = if rest { <I32ClampThenLe as Arbitrary>::arbitrary_take_rest(Unstructured::new(bytes)) } else { <I32ClampThenLe as Arbitrary>::arbitrary(&mut u) };
                            match res {
                    Ok(v) => {
                        let consumed = if rest { bytes.len() } else { bytes.len() - u.len() };
                        let inner: i32 = v.into_inner();
                        let repr = format!("{:?}", inner);
                        ArbOutcome::Value { valid: (0..=100).contains(&inner), class: class_num_str(&repr, Some(0.0), Some(100.0)), repr, consumed }
                    }
                    Err(e) => ArbOutcome::ArbError(format!("{e:?}")),
                }
            },
            classify: |s| class_num_str(s, Some(0.0), Some(100.0)),
        }, ArbDecl {
            name: "I32AbsThenLe",
            family: "integer",
            text: "sanitize(with = |x: i32| x.wrapping_abs()), validate(less_or_equal = 100), derive(Debug, Arbitrary)",
            run: |bytes: &[u8], rest: bool| {
                let mut u = Unstructured::new(bytes);
                let res = if rest { <I32AbsThenLe as Arbitrary>::arbitrary_take_rest(Unstructured::new(bytes)) } else { <I32AbsThenLe as Arbitrary>::arbitrary(&mut u) };
                            match res {
                    Ok(v) => {
                        let consumed = if rest { bytes.len() } else { bytes.len() - u.len() };
                        let inner: i32 = v.into_inner();
                        let repr = format!("{:?}", inner);
                        ArbOutcome::Value { valid: inner <= 100, class: class_num_str(&repr, None, Some(100.0)), repr, consumed }
                    }
                    Err(e) => ArbOutcome::ArbError(format!("{e:?}")),
                }
            },
            classify: |s| class_num_str(s, None, Some(100.0)),
        }]
    }
}

mod matrix;
mod audit;

/// Declarations that are executed only through the plan of a recorded finding.
pub fn plan_only() -> Vec<ArbDecl> {
    audit::registry_plan_only()
}

pub fn all() -> Vec<ArbDecl> {
    let mut v = registry();
    v.extend(matrix::registry_matrix());
    v.extend(registry_generic());
    v.extend(audit::registry_audit());
    #[cfg(feature = "questionable")]
    v.extend(questionable::registry_questionable());
    v
}

//! S-CHAIN (property C11): stored values are canonical — pushing an obtained value around any
//! loop of exits (into_inner / Into / AsRef / Deref / Display / Serialize) and entries (try_new /
//! TryFrom / FromStr / Deserialize) reproduces it, through real encoders and a transport with
//! benign faults (short reads/writes, EINTR, chunked fmt sinks).
//!
//! One run = one declaration, one source of a value (raw input through try_new, FromStr,
//! TryFrom<&str>, Deserialize of a document, Arbitrary on a byte source, Default) and a seeded
//! chain of up to 8 hops. Reference model: the identity.

use std::collections::BTreeMap;
use std::io::Write;
use std::panic::{catch_unwind, AssertUnwindSafe};
use std::time::{Duration, Instant};

use cat_c11::{chain_index, chain_names, n_chain_decls, with_chain, ChainT, ChainVisitor};
use serde::{Deserialize, Serialize};
use serde_json::{json, Map, Value};
use simcore::codec::{self, Api, Format};
use simcore::decl::Repr;
use simcore::report::{self, hex, unhex, Config, EvidenceExtra};
use simcore::rng::{Fnv, Rng};
use simcore::runner::{self, panic_message, Stats, Violation, WorkerCtx};
use simcore::simformat::{from_tokens, to_tokens, Byz, Tok};
use simcore::simio::{ReadStep, SimReader, SimSink, SimWriter, WriteStep};

const PROPERTY: &str = "C11";
const SC_CHAIN: u64 = 1101;
const HANG_LIMIT: Duration = Duration::from_secs(120);

/// A serde newtype struct around a bare inner value: what a foreign producer would write.
#[derive(Serialize)]
struct Wrap<'a, I>(&'a I);

#[derive(Serialize, Deserialize, Clone, Debug)]
enum Source {
    /// `try_new(raw)`
    Raw { toks: Vec<Tok> },
    /// `TryFrom<Inner>` / `From<Inner>`
    TryFromInner { toks: Vec<Tok> },
    /// `"..".parse()`
    Text { s: String },
    /// `TryFrom<&str>` (string newtypes)
    TryFromStr { s: String },
    /// `Deserialize` of a document produced from a raw inner value by a foreign serializer
    Deser { fmt: Format, api: Api, bytes_hex: String, rplan: Vec<ReadStep>, tail: u32 },
    /// `Arbitrary` on a byte source
    Arb { bytes_hex: String },
    Default,
}

impl Source {
    fn kind(&self) -> &'static str {
        match self {
            Source::Raw { .. } => "try_new",
            Source::TryFromInner { .. } => "try_from_inner",
            Source::Text { .. } => "from_str",
            Source::TryFromStr { .. } => "try_from_str",
            Source::Deser { .. } => "deserialize",
            Source::Arb { .. } => "arbitrary",
            Source::Default => "default",
        }
    }
}

#[derive(Serialize, Deserialize, Clone, Copy, Debug, PartialEq, Eq)]
enum HopKind {
    IntoInnerTryNew,
    IntoInnerTryFrom,
    IntoTryNew,
    AsRefTryNew,
    DerefTryFrom,
    DisplayFromStr,
    DisplayTryFromStr,
    DisplayTryNewViaInnerParse,
    SerDe { fmt: Format, api: Api },
}

impl HopKind {
    fn name(&self) -> &'static str {
        match self {
            HopKind::IntoInnerTryNew => "into_inner->try_new",
            HopKind::IntoInnerTryFrom => "into_inner->try_from",
            HopKind::IntoTryNew => "into->try_new",
            HopKind::AsRefTryNew => "as_ref->try_new",
            HopKind::DerefTryFrom => "deref->try_from",
            HopKind::DisplayFromStr => "display->from_str",
            HopKind::DisplayTryFromStr => "display->try_from_str",
            HopKind::DisplayTryNewViaInnerParse => "display->inner_parse->try_new",
            HopKind::SerDe { fmt: Format::Json, .. } => "serialize->deserialize(json)",
            HopKind::SerDe { fmt: Format::Ron, .. } => "serialize->deserialize(ron)",
            HopKind::SerDe { fmt: Format::Msgpack, .. } => "serialize->deserialize(msgpack)",
            HopKind::SerDe { fmt: Format::JsonPretty, .. } => "serialize->deserialize(json_pretty)",
            HopKind::SerDe { fmt: Format::RonExt, .. } => "serialize->deserialize(ron_ext)",
            HopKind::SerDe { fmt: Format::RonNamed, .. } => "serialize->deserialize(ron_struct_names)",
            HopKind::SerDe { fmt: Format::MsgpackNamed, .. } => "serialize->deserialize(msgpack_struct_map)",
        }
    }
}

#[derive(Serialize, Deserialize, Clone, Debug)]
struct Hop {
    kind: HopKind,
    wplan: Vec<WriteStep>,
    wtail: u32,
    rplan: Vec<ReadStep>,
    rtail: u32,
}

#[derive(Serialize, Deserialize, Clone, Debug)]
struct ChainPlan {
    scenario: String,
    decl: String,
    source: Source,
    hops: Vec<Hop>,
}

// ------------------------------------------------------------------------------------ building

fn benign_w(rng: &mut Rng) -> (Vec<WriteStep>, u32) {
    match rng.below(4) {
        0 => (vec![], 0),
        1 => (vec![], *rng.pick(&[1u32, 2, 3])),
        _ => {
            let n = rng.range_usize(1, 8);
            ((0..n).map(|_| if rng.chance(1, 3) { WriteStep::Eintr } else { WriteStep::Accept(rng.range(1, 5) as u32) }).collect(), *rng.pick(&[0u32, 1]))
        }
    }
}

fn benign_r(rng: &mut Rng) -> (Vec<ReadStep>, u32) {
    match rng.below(4) {
        0 => (vec![], 0),
        1 => (vec![], *rng.pick(&[1u32, 2, 3, 7])),
        _ => {
            let n = rng.range_usize(1, 8);
            ((0..n).map(|_| if rng.chance(1, 3) { ReadStep::Eintr } else { ReadStep::Deliver(rng.range(1, 6) as u32) }).collect(), *rng.pick(&[0u32, 1, 4]))
        }
    }
}

struct Build<'a> {
    rng: &'a mut Rng,
}

impl<'a> ChainVisitor for Build<'a> {
    type Out = ChainPlan;
    fn visit<T: ChainT>(self) -> ChainPlan {
        let rng = self.rng;
        let is_string = T::FAMILY == "string";
        let source = loop {
            let k = rng.weighted(&[30, 8, 15, 8, 20, 14, 5]);
            match k {
                0 => break Source::Raw { toks: to_tokens(&T::gen(rng)).unwrap() },
                1 => break Source::TryFromInner { toks: to_tokens(&T::gen(rng)).unwrap() },
                2 => {
                    let s = if rng.chance(1, 2) { T::gen(rng).repr_text() } else { T::gen_text(rng) };
                    break Source::Text { s };
                }
                3 if is_string => break Source::TryFromStr { s: T::gen_text(rng) },
                4 => {
                    let fmt = *rng.pick(&Format::ALL);
                    let raw = T::gen(rng);
                    if let Ok(bytes) = codec::ser_bytes(fmt, &Wrap(&raw)) {
                        let (rplan, tail) = benign_r(rng);
                        break Source::Deser { fmt, api: *rng.pick(&[Api::Reader, Api::Slice, Api::Str, Api::Value]), bytes_hex: hex(&bytes), rplan, tail };
                    }
                }
                5 if T::HAS_ARBITRARY => {
                    let n = rng.range_usize(0, if is_string { 64 } else { 12 });
                    let mut b = vec![0u8; n];
                    rng.fill(&mut b);
                    if is_string {
                        // bias towards small code points and the special characters
                        for c in b.chunks_mut(4) {
                            if c.len() == 4 && rng.chance(2, 3) {
                                let ch = simcore::decl::gen_char(rng) as u32;
                                c.copy_from_slice(&ch.to_le_bytes());
                            }
                        }
                        if !b.is_empty() {
                            b[0] = rng.below(20) as u8;
                        }
                    }
                    break Source::Arb { bytes_hex: hex(&b) };
                }
                6 if T::HAS_DEFAULT => break Source::Default,
                _ => {}
            }
        };
        let n_hops = rng.range_usize(1, 8);
        let mut hops = Vec::new();
        for _ in 0..n_hops {
            let kind = loop {
                let k = match rng.below(9) {
                    0 => HopKind::IntoInnerTryNew,
                    1 => HopKind::IntoInnerTryFrom,
                    2 => HopKind::IntoTryNew,
                    3 => HopKind::AsRefTryNew,
                    4 => HopKind::DerefTryFrom,
                    5 => HopKind::DisplayFromStr,
                    6 => {
                        if is_string {
                            HopKind::DisplayTryFromStr
                        } else {
                            HopKind::DisplayTryNewViaInnerParse
                        }
                    }
                    _ => HopKind::SerDe { fmt: *rng.pick(&Format::ALL), api: *rng.pick(&[Api::Reader, Api::Reader, Api::Slice, Api::Str, Api::Value]) },
                };
                break k;
            };
            let (wplan, wtail) = benign_w(rng);
            let (rplan, rtail) = benign_r(rng);
            hops.push(Hop { kind, wplan, wtail, rplan, rtail });
        }
        ChainPlan { scenario: "chain".into(), decl: T::NAME.to_string(), source, hops }
    }
}

trait ReprText {
    fn repr_text(&self) -> String;
}
impl<I: std::fmt::Debug + Serialize> ReprText for I {
    /// Plain text of an inner value, as a user would type it (Display for numbers/strings).
    fn repr_text(&self) -> String {
        match serde_json::to_value(self) {
            Ok(Value::String(s)) => s,
            Ok(Value::Number(n)) => n.to_string(),
            _ => format!("{self:?}"),
        }
    }
}

// ------------------------------------------------------------------------------------ execution

#[derive(Default)]
struct Out {
    evals: u64,
    steps: u64,
    log: Fnv,
    fired: BTreeMap<&'static str, u64>,
    probes: BTreeMap<&'static str, u64>,
    classes: BTreeMap<String, u64>,
    distinct: Vec<u64>,
    violations: Vec<(String, String)>,
    obtained: bool,
}

impl Out {
    fn fire(&mut self, k: &'static str, n: u64) {
        if n > 0 {
            *self.fired.entry(k).or_insert(0) += n;
        }
    }
    fn probe(&mut self, k: &'static str) {
        *self.probes.entry(k).or_insert(0) += 1;
    }
    fn class(&mut self, k: String) {
        *self.classes.entry(k).or_insert(0) += 1;
    }
}

fn obtain<T: ChainT>(src: &Source, out: &mut Out) -> Option<T> {
    let r = catch_unwind(AssertUnwindSafe(|| -> Option<Result<T, String>> {
        match src {
            Source::Raw { toks } => {
                let (r, _, _, _) = from_tokens::<T::Inner>(toks, "", Byz::Honest, None);
                Some(T::try_new_(r.ok()?))
            }
            Source::TryFromInner { toks } => {
                let (r, _, _, _) = from_tokens::<T::Inner>(toks, "", Byz::Honest, None);
                Some(T::via_try_from(r.ok()?))
            }
            Source::Text { s } => Some(T::from_str_(s)),
            Source::TryFromStr { s } => T::try_from_str(s),
            Source::Deser { fmt, api, bytes_hex, rplan, tail } => {
                let mut r = SimReader::with_plan(unhex(bytes_hex), rplan.clone(), *tail);
                Some(T::de(*fmt, *api, &mut r))
            }
            Source::Arb { bytes_hex } => T::arb(&unhex(bytes_hex)),
            Source::Default => T::default_().map(Ok),
        }
    }));
    match r {
        Ok(Some(Ok(v))) => Some(v),
        Ok(Some(Err(_))) => {
            out.class(format!("source.{}.rejected", src.kind()));
            None
        }
        Ok(None) => {
            out.class(format!("source.{}.not_applicable", src.kind()));
            None
        }
        Err(_) => {
            // e.g. a C09 defect inside Arbitrary, or Default with an invalid default: nothing was
            // obtained, so C11 says nothing.
            out.class(format!("source.{}.panicked", src.kind()));
            None
        }
    }
}

enum HopOutcome<T> {
    Value(T),
    /// Precondition of the property not met (bare inner value does not round-trip through this
    /// exit/entry pair, or the format cannot encode it): hop skipped.
    Skipped(&'static str),
    Failed(String),
}

fn display_of<T: ChainT>(v: &T, out: &mut Out) -> Result<String, String> {
    let mut sink = SimSink::new(None);
    v.display_into(&mut sink).map_err(|_| "Display returned fmt::Error on a sink that never fails".to_string())?;
    out.steps += sink.chunks.len() as u64;
    Ok(sink.out)
}

fn do_hop<T: ChainT>(v: &T, hop: &Hop, out: &mut Out) -> HopOutcome<T> {
    let r = catch_unwind(AssertUnwindSafe(|| -> HopOutcome<T> {
        let conv = |r: Result<T, String>| match r {
            Ok(w) => HopOutcome::Value(w),
            Err(e) => HopOutcome::Failed(e),
        };
        match hop.kind {
            HopKind::IntoInnerTryNew => conv(T::try_new_(v.clone().into_inner_())),
            HopKind::IntoInnerTryFrom => conv(T::via_try_from(v.clone().into_inner_())),
            HopKind::IntoTryNew => conv(T::try_new_(v.clone().via_into())),
            HopKind::AsRefTryNew => conv(T::try_new_(v.via_as_ref())),
            HopKind::DerefTryFrom => conv(T::via_try_from(v.via_deref())),
            HopKind::DisplayFromStr | HopKind::DisplayTryFromStr | HopKind::DisplayTryNewViaInnerParse => {
                let inner = v.clone().into_inner_();
                if !T::inner_text_roundtrips(&inner) {
                    return HopOutcome::Skipped("inner_does_not_roundtrip_through_text");
                }
                let text = match display_of(v, out) {
                    Ok(t) => t,
                    Err(e) => return HopOutcome::Failed(e),
                };
                match hop.kind {
                    HopKind::DisplayFromStr => conv(T::from_str_(&text)),
                    HopKind::DisplayTryFromStr => match T::try_from_str(&text) {
                        Some(r) => conv(r),
                        None => HopOutcome::Skipped("no_try_from_str"),
                    },
                    _ => {
                        // parse with the INNER type's FromStr, then try_new
                        match T::inner_from_text(&text) {
                            Some(i) => conv(T::try_new_(i)),
                            None => HopOutcome::Failed(format!("Display text {text:?} does not parse as the inner type")),
                        }
                    }
                }
            }
            HopKind::SerDe { fmt, api } => {
                // precondition: the bare inner value round-trips in this format
                let inner = v.clone().into_inner_();
                let pre = codec::ser_bytes(fmt, &Wrap(&inner)).ok().and_then(|b| {
                    // (Wrap is Serialize-only; read the inner back as a 1-tuple struct is format
                    // specific, so compare through T's twin-free path: the inner type alone.)
                    let _ = b;
                    codec::ser_bytes(fmt, &inner).ok()
                });
                let Some(inner_bytes) = pre else { return HopOutcome::Skipped("format_cannot_encode_inner") };
                // ... through the same entry API as the hop (serde_json::Value, for one, cannot
                // hold integers beyond 64 bits: such an inner value does not round-trip there).
                let pre_api = if api == Api::Reader { Api::Slice } else { api };
                match codec::de_bytes::<T::Inner>(fmt, pre_api, &inner_bytes) {
                    Ok(j) if j.repr() == inner.repr() => {}
                    _ => return HopOutcome::Skipped("inner_does_not_roundtrip_in_format"),
                }
                let mut w = SimWriter::with_plan(hop.wplan.clone(), hop.wtail, None);
                if let Err(e) = v.ser(fmt, &mut w) {
                    return HopOutcome::Failed(format!("Serialize failed under benign write faults: {e}"));
                }
                let _ = w.flush();
                out.steps += w.log.calls;
                out.fire("fault.short_write", w.log.short_writes);
                out.fire("fault.write_eintr", w.log.eintr);
                let mut r = SimReader::with_plan(w.out, hop.rplan.clone(), hop.rtail);
                let res = T::de(fmt, api, &mut r);
                out.steps += r.log.calls;
                out.fire("fault.short_read", r.log.short_reads);
                out.fire("fault.eintr", r.log.eintr);
                conv(res)
            }
        }
    }));
    match r {
        Ok(o) => o,
        Err(p) => HopOutcome::Failed(format!("panicked: {}", panic_message(&p))),
    }
}

struct Exec<'a> {
    p: &'a ChainPlan,
}

impl<'a> ChainVisitor for Exec<'a> {
    type Out = Out;
    fn visit<T: ChainT>(self) -> Out {
        let p = self.p;
        let mut out = Out::default();
        out.log.str(&p.decl);
        out.log.str(p.source.kind());
        let Some(v) = obtain::<T>(&p.source, &mut out) else {
            return out;
        };
        out.obtained = true;
        out.evals += 1;
        // Same input, submitted again straight away (nothing in between): same value. A memo keyed
        // by the raw input, a counter, a cache warmed by the first call would show here.
        {
            let mut scratch = Out::default();
            let first = v.repr();
            match obtain::<T>(&p.source, &mut scratch) {
                Some(w) if w.repr() == first => out.probe("probe.source_resubmitted_immediately_same_value"),
                Some(w) => out.violations.push((
                    "same_input_same_value".to_string(),
                    format!("source {} gave {first}; submitting the same input again immediately gave {}", p.source.kind(), w.repr()),
                )),
                None => out.violations.push((
                    "same_input_same_value".to_string(),
                    format!("source {} gave {first}; submitting the same input again immediately was rejected (or panicked)", p.source.kind()),
                )),
            }
        }
        out.class(format!("source.{}.value", p.source.kind()));
        let vrepr = v.repr();
        out.log.str(&vrepr);
        let reflexive = v.eq_(&v);
        // probes about the value
        if let Source::Raw { toks } | Source::TryFromInner { toks } = &p.source {
            if let (Ok(raw), _, _, _) = from_tokens::<T::Inner>(toks, "", Byz::Honest, None) {
                if raw.repr() != vrepr {
                    out.probe("probe.sanitizer_changed_the_source_input");
                }
            }
        }
        if T::FAMILY == "string" {
            let vtext = v.clone().into_inner_().repr_text();
            let vrepr = &vtext;
            if vrepr.chars().any(|c| simcore::decl::CASE_SPECIAL.contains(&c)) {
                out.probe("probe.value_contains_case_special_char");
            }
            if vrepr.chars().any(|c| c != ' ' && simcore::decl::WHITESPACE.contains(&c)) {
                out.probe("probe.value_contains_inner_unicode_whitespace");
            }
            if vrepr.contains('ς') || vrepr.contains('σ') || vrepr.contains('Σ') {
                out.probe("probe.value_contains_sigma");
            }
        }
        // A Display sink that fails after k bytes (fmt::Write error at an arbitrary instant): the
        // error is propagated, nothing panics, and what was written is a prefix of the full text.
        if let Ok(full) = display_of(&v, &mut out) {
            let k = (Fnv::of_str(&vrepr) % (full.len() as u64 + 2)) as usize;
            let mut sink = SimSink::new(Some(k));
            match catch_unwind(AssertUnwindSafe(|| v.display_into(&mut sink))) {
                Err(pn) => out.violations.push(("display_does_not_panic_on_failing_sink".to_string(), format!("Display panicked when the sink failed after {k} bytes: {}", panic_message(&pn)))),
                Ok(r) => {
                    if sink.failed {
                        out.fire("fault.fmt_sink_error", 1);
                    }
                    let prefix_ok = full.starts_with(&sink.out);
                    let outcome_ok = if full.len() > k { r.is_err() } else { r.is_ok() && sink.out == full };
                    if !prefix_ok || !outcome_ok {
                        out.violations.push((
                            "display_propagates_sink_error".to_string(),
                            format!("Display of {vrepr} into a sink failing after {k} bytes returned {r:?} having written {:?} (full text {:?})", sink.out, full),
                        ));
                    }
                }
            }
        }
        // I0: the canonical re-entry of the statement itself
        let check = |w: &T, what: &str, out: &mut Out| {
            let wr = w.repr();
            if wr != vrepr {
                out.violations.push((
                    "reentry_reproduces_the_value".to_string(),
                    format!("value {vrepr} obtained via {}; after {what} it is {wr}", p.source.kind()),
                ));
                false
            } else if reflexive && !w.eq_(&v) {
                out.violations.push(("reentry_reproduces_the_value".to_string(), format!("value {vrepr}: after {what} the result has the same inner value but `==` says it differs")));
                false
            } else {
                true
            }
        };
        match catch_unwind(AssertUnwindSafe(|| T::try_new_(v.clone().into_inner_()))) {
            Ok(Ok(w)) => {
                check(&w, "try_new(v.into_inner())", &mut out);
            }
            Ok(Err(e)) => out.violations.push((
                "reentry_accepts_the_value".to_string(),
                format!("value {vrepr} obtained via {} is rejected by try_new(v.into_inner()): {e}", p.source.kind()),
            )),
            Err(pn) => out.violations.push(("reentry_does_not_panic".to_string(), format!("try_new(v.into_inner()) panicked for {vrepr}: {}", panic_message(&pn)))),
        }
        // the chain
        let mut cur = v.clone();
        let mut mask = 0u64;
        for (i, hop) in p.hops.iter().enumerate() {
            match do_hop::<T>(&cur, hop, &mut out) {
                HopOutcome::Value(w) => {
                    out.evals += 1;
                    out.class(format!("hop.{}", hop.kind.name()));
                    out.log.u64(i as u64);
                    out.log.str(&w.repr());
                    if !check(&w, &format!("hop #{i} {}", hop.kind.name()), &mut out) {
                        break;
                    }
                    cur = w;
                    mask |= 1 << (hop_index(&hop.kind));
                }
                HopOutcome::Skipped(why) => {
                    out.class(format!("hop_skipped.{why}"));
                    out.probe("probe.hop_precondition_false");
                }
                HopOutcome::Failed(e) => {
                    out.evals += 1;
                    out.violations.push((
                        "reentry_accepts_the_value".to_string(),
                        format!("value {vrepr} obtained via {}: hop #{i} {} failed: {e}", p.source.kind(), hop.kind.name()),
                    ));
                    break;
                }
            }
        }
        // Validation and sanitisation are deterministic: obtaining the value from the same source
        // once more (after everything above ran, on whatever thread) gives the same value.
        if out.violations.is_empty() {
            let mut scratch = Out::default();
            match obtain::<T>(&p.source, &mut scratch) {
                Some(w) if w.repr() == vrepr => out.probe("probe.source_re_evaluated_same_value"),
                Some(w) => out.violations.push((
                    "same_input_same_value".to_string(),
                    format!("source {} gave {vrepr} the first time and {} the second time", p.source.kind(), w.repr()),
                )),
                None => out.violations.push((
                    "same_input_same_value".to_string(),
                    format!("source {} gave {vrepr} the first time and was rejected (or panicked) the second time", p.source.kind()),
                )),
            }
        }
        let mut h = Fnv::default();
        h.str(&p.decl);
        h.str(p.source.kind());
        h.u64(mask);
        h.u64(p.hops.len() as u64);
        out.distinct.push(h.0);
        out
    }
}

fn hop_index(k: &HopKind) -> u32 {
    match k {
        HopKind::IntoInnerTryNew => 0,
        HopKind::IntoInnerTryFrom => 1,
        HopKind::IntoTryNew => 2,
        HopKind::AsRefTryNew => 3,
        HopKind::DerefTryFrom => 4,
        HopKind::DisplayFromStr => 5,
        HopKind::DisplayTryFromStr => 6,
        HopKind::DisplayTryNewViaInnerParse => 7,
        HopKind::SerDe { fmt: Format::Json, .. } => 8,
        HopKind::SerDe { fmt: Format::Ron, .. } => 9,
        HopKind::SerDe { fmt: Format::Msgpack, .. } => 10,
        HopKind::SerDe { fmt: Format::JsonPretty, .. } => 11,
        HopKind::SerDe { fmt: Format::RonExt, .. } => 12,
        HopKind::SerDe { fmt: Format::RonNamed, .. } => 13,
        HopKind::SerDe { fmt: Format::MsgpackNamed, .. } => 14,
    }
}

fn merge(st: &mut Stats, out: &Out) {
    st.evaluations += out.evals;
    st.steps += out.steps;
    for (k, v) in &out.fired {
        st.add(k, *v);
    }
    for (k, v) in &out.probes {
        st.add(k, *v);
    }
    for (k, v) in &out.classes {
        *st.dyn_counters.entry(format!("outcome.{k}")).or_insert(0) += *v;
    }
    st.distinct.extend(&out.distinct);
}

fn violation_of(p: &ChainPlan, run_index: u64, inv: &str, detail: &str) -> Violation {
    Violation {
        run_index,
        scenario: "S-CHAIN",
        decl: p.decl.clone(),
        invariant: inv.to_string(),
        signature: format!("{}:{}", inv, p.source.kind()),
        detail: detail.to_string(),
        plan: serde_json::to_value(p).unwrap(),
    }
}

fn run_one(seed: u64, run_index: u64, st: &mut Stats, ctx: &WorkerCtx) {
    let mut rng = Rng::for_run(seed, SC_CHAIN, run_index);
    let idx = (run_index % n_chain_decls() as u64) as usize;
    let plan = with_chain(idx, Build { rng: &mut rng });
    let out = ctx.guarded(|| serde_json::to_value(&plan).unwrap(), || with_chain(idx, Exec { p: &plan }));
    st.inc("chains");
    if out.obtained {
        st.inc("chains_with_a_value");
    }
    merge(st, &out);
    for (inv, d) in &out.violations {
        st.violation(violation_of(&plan, run_index, inv, d));
    }
    st.histories.push(out.log.0);
    if st.keep_trace {
        st.trace.push((run_index, out.log.0, (!out.violations.is_empty()) as u8));
    }
    if out.obtained {
        st.sample(run_index, || {
            let mut v = serde_json::to_value(&plan).unwrap();
            v["run_index"] = json!(run_index);
            v
        });
    }
}

// ------------------------------------------------------------------------------------ thread teardown

/// Re-entry at thread teardown: a client thread initialises a thread-local guard FIRST, then
/// obtains values; when the thread exits, the guard's destructor - which runs after the
/// destructors of every thread-local initialised later - pushes each stored value through
/// `try_new(v.into_inner())` once more. Validation must not depend on per-thread state that is
/// already gone by then.
type TeardownJob = Box<dyn FnOnce() -> (String, String, Result<(), String>)>;

struct TeardownGuard(std::cell::RefCell<Vec<TeardownJob>>);

static TEARDOWN_RESULTS: std::sync::Mutex<Vec<(String, String, Result<(), String>)>> = std::sync::Mutex::new(Vec::new());

impl Drop for TeardownGuard {
    fn drop(&mut self) {
        let jobs: Vec<TeardownJob> = self.0.borrow_mut().drain(..).collect();
        let mut out = Vec::new();
        for j in jobs {
            out.push(j());
        }
        if let Ok(mut g) = TEARDOWN_RESULTS.lock() {
            g.extend(out);
        }
    }
}

thread_local! {
    static TEARDOWN_GUARD: TeardownGuard = TeardownGuard(std::cell::RefCell::new(Vec::new()));
}

struct TeardownVisit<'a> {
    rng: &'a mut Rng,
}

impl<'a> ChainVisitor for TeardownVisit<'a> {
    type Out = usize;
    fn visit<T: ChainT>(self) -> usize {
        let mut n = 0;
        for _ in 0..3 {
            let raw = T::gen(self.rng);
            let Ok(Ok(v)) = catch_unwind(AssertUnwindSafe(|| T::try_new_(raw))) else { continue };
            n += 1;
            let vrepr = v.repr();
            let job: TeardownJob = Box::new(move || {
                let r = catch_unwind(AssertUnwindSafe(|| T::try_new_(v.clone().into_inner_())));
                let verdict = match r {
                    Ok(Ok(w)) if w.repr() == vrepr => Ok(()),
                    Ok(Ok(w)) => Err(format!("became {}", w.repr())),
                    Ok(Err(e)) => Err(format!("rejected: {e}")),
                    Err(p) => Err(format!("panicked: {}", panic_message(&p))),
                };
                (T::NAME.to_string(), vrepr, verdict)
            });
            TEARDOWN_GUARD.with(|g| g.0.borrow_mut().push(job));
        }
        n
    }
}

fn run_teardown(cfg: &Config, stats: &mut Stats) {
    for t in 0..4u64 {
        let seed = cfg.seed;
        let h = std::thread::spawn(move || {
            // the guard first, so that it is destroyed last
            TEARDOWN_GUARD.with(|_| ());
            let mut rng = Rng::for_run(seed, SC_CHAIN + 1, t);
            let mut n = 0usize;
            for idx in 0..n_chain_decls() {
                n += with_chain(idx, TeardownVisit { rng: &mut rng });
            }
            n
        });
        let stored = h.join().unwrap_or(0);
        stats.add("teardown_values_stored", stored as u64);
    }
    let results: Vec<(String, String, Result<(), String>)> = TEARDOWN_RESULTS.lock().map(|mut g| g.drain(..).collect()).unwrap_or_default();
    for (decl, vrepr, verdict) in results {
        stats.evaluations += 1;
        stats.inc("fault.thread_teardown_reentry");
        if let Err(e) = verdict {
            stats.violation(Violation {
                run_index: u64::MAX - 2,
                scenario: "S-CHAIN/teardown",
                decl: decl.clone(),
                invariant: "reentry_at_thread_teardown".into(),
                signature: "reentry_at_thread_teardown".into(),
                detail: format!("value {vrepr} accepted by try_new on a client thread; try_new(v.into_inner()) from a thread-local destructor of the same thread (after later thread-locals were destroyed): {e}"),
                plan: json!({"scenario": "teardown", "decl": decl, "seed": cfg.seed, "value": vrepr}),
            });
        }
    }
}

// ------------------------------------------------------------------------------------ replay / minimise

fn exec_plan(plan: &Value) -> Result<Vec<(String, String)>, String> {
    if plan["scenario"].as_str() == Some("teardown") {
        let cfg = Config { property: PROPERTY, tier: "quick".into(), seed: plan["seed"].as_u64().unwrap_or(1), workers: 1, verif_dir: std::path::PathBuf::from("/verif") };
        let mut st = Stats::default();
        run_teardown(&cfg, &mut st);
        return Ok(st.violations.into_iter().map(|v| (v.invariant, v.detail)).collect());
    }
    let p: ChainPlan = serde_json::from_value(plan.clone()).map_err(|e| e.to_string())?;
    let idx = chain_index(&p.decl).ok_or_else(|| format!("unknown declaration {:?}", p.decl))?;
    let out = with_chain(idx, Exec { p: &p });
    Ok(out.violations)
}

fn still_fails(p: &ChainPlan, inv: &str) -> Option<String> {
    exec_plan(&serde_json::to_value(p).unwrap()).ok()?.into_iter().find(|(i, _)| i == inv).map(|(_, d)| d)
}

fn minimise(v: &Violation) -> Violation {
    let Ok(mut p) = serde_json::from_value::<ChainPlan>(v.plan.clone()) else { return v.clone() };
    let mut detail = v.detail.clone();
    // drop hops from the end, then from the front
    let mut i = p.hops.len();
    while i > 0 {
        i -= 1;
        let mut t = p.clone();
        t.hops.remove(i);
        if let Some(d) = still_fails(&t, &v.invariant) {
            p = t;
            detail = d;
        }
    }
    // make the transport fault-free
    for i in 0..p.hops.len() {
        let mut t = p.clone();
        t.hops[i].wplan.clear();
        t.hops[i].rplan.clear();
        t.hops[i].wtail = 0;
        t.hops[i].rtail = 0;
        if let Some(d) = still_fails(&t, &v.invariant) {
            p = t;
            detail = d;
        }
    }
    // shrink textual sources
    if let Source::Text { s } | Source::TryFromStr { s } = p.source.clone() {
        let is_text = matches!(p.source, Source::Text { .. });
        let mut chars: Vec<char> = s.chars().collect();
        let mut j = 0;
        while j < chars.len() {
            let mut c2 = chars.clone();
            c2.remove(j);
            let s2: String = c2.iter().collect();
            let mut t = p.clone();
            t.source = if is_text { Source::Text { s: s2 } } else { Source::TryFromStr { s: s2 } };
            if let Some(d) = still_fails(&t, &v.invariant) {
                p = t;
                detail = d;
                chars = c2;
            } else {
                j += 1;
            }
        }
    }
    if let Source::Arb { bytes_hex } = p.source.clone() {
        let mut b = unhex(&bytes_hex);
        while !b.is_empty() {
            let mut t = p.clone();
            let b2 = b[..b.len() - 1].to_vec();
            t.source = Source::Arb { bytes_hex: hex(&b2) };
            if let Some(d) = still_fails(&t, &v.invariant) {
                p = t;
                detail = d;
                b = b2;
            } else {
                break;
            }
        }
    }
    Violation { plan: serde_json::to_value(&p).unwrap(), detail, ..v.clone() }
}

// ------------------------------------------------------------------------------------ modes

fn hang_exit(cfg: &Config, plan: Value) -> ! {
    let v = Violation {
        run_index: 0,
        scenario: "S-CHAIN",
        decl: plan["decl"].as_str().unwrap_or("?").to_string(),
        invariant: "terminates".into(),
        signature: "hang".into(),
        detail: format!("a simulated run did not finish within {}s", HANG_LIMIT.as_secs()),
        plan,
    };
    let path = report::write_replay(cfg, &v);
    println!("VIOLATION property={} replay={} decl={} invariant=terminates signature=hang", cfg.property, path.display(), v.decl);
    std::process::exit(report::EXIT_VIOLATION)
}

fn sweep(cfg: &Config, n: u64, keep_trace: bool, workers: usize) -> Stats {
    let seed = cfg.seed;
    let cfg2 = cfg.clone();
    runner::run_sharded(n, workers, keep_trace, HANG_LIMIT, move |plan| hang_exit(&cfg2, plan), |i, st, ctx| run_one(seed, i, st, ctx))
}

fn run_check(cfg: &Config) -> i32 {
    let t0 = Instant::now();
    let mut determinism_diverged = false;
    let n: u64 = if cfg.thorough() { 40_000_000 } else { 800_000 };
    let mut stats = sweep(cfg, n, false, cfg.workers);
    run_teardown(cfg, &mut stats);
    let a = sweep(cfg, 2048, true, 3);
    let b = sweep(cfg, 2048, true, cfg.workers.max(2));
    if a.trace != b.trace {
        determinism_diverged = true;
    }
    let out = report::settle_violations(cfg, &stats, &minimise);
    if determinism_diverged {
        if out.new_violations == 0 {
            // The simulator is deterministic on the unchanged tree (./check selfcheck); if the same
            // seeds give different event logs at different worker counts, something in the run has
            // state that outlives a run. Without a concrete violation this is reported as a harness
            // error, never as a property violation.
            report::harness_error("determinism probe failed: the same seeds produced different event logs at different worker counts");
        }
        println!("NOTE: the determinism probe also diverged (results depend on which runs shared a worker thread: hidden state that outlives a run)");
    }
    let wall = t0.elapsed().as_secs_f64();
    let must = [
        "probe.sanitizer_changed_the_source_input",
        "probe.value_contains_case_special_char",
        "probe.value_contains_inner_unicode_whitespace",
        "probe.value_contains_sigma",
        "probe.hop_precondition_false",
        "fault.short_write",
        "fault.short_read",
        "fault.eintr",
        "fault.write_eintr",
        "fault.fmt_sink_error",
        "fault.thread_teardown_reentry",
    ];
    let mut stuck: Vec<String> = must.iter().copied().filter(|k| stats.get(k) == 0).map(|s| s.to_string()).collect();
    for src in ["try_new", "try_from_inner", "from_str", "try_from_str", "deserialize", "arbitrary", "default"] {
        if stats.dyn_counters.get(&format!("outcome.source.{src}.value")).copied().unwrap_or(0) == 0 {
            stuck.push(format!("source.{src}.value"));
        }
    }
    if !stuck.is_empty() && out.new_violations == 0 {
        report::harness_error(&format!("reach probes stuck at zero: {stuck:?}"));
    }
    let mut extra = Map::new();
    extra.insert("declarations".into(), json!(chain_names()));
    extra.insert("determinism_probe".into(), json!({"runs": 2048, "worker_counts": [3, cfg.workers.max(2)], "event_logs_identical": true}));
    extra.insert("chains".into(), json!(n));
    report::write_evidence(
        cfg,
        &stats,
        &out,
        wall,
        EvidenceExtra {
            level: "exploration",
            rule: "one chain = one declaration, one source of a value (try_new / TryFrom<Inner> / FromStr / TryFrom<&str> / Deserialize of a foreign document in json, ron or msgpack through a SimReader / Arbitrary on a byte source / Default) and 1..=8 seeded hops, each an exit (into_inner, Into, AsRef, Deref, Display into a SimSink, Serialize into a SimWriter) composed with the matching entry (try_new, TryFrom, FromStr, TryFrom<&str>, inner-type parse then try_new, Deserialize from a SimReader), over a transport with benign faults only (short writes/reads, EINTR). evaluations = obtained values + executed hops; after obtaining v the statement's own try_new(v.into_inner()) == Ok(v) is checked, then every hop must return Ok(w) with bit-identical inner value (and w == v where == is reflexive). For text/serde hops the precondition 'bare inner value round-trips through this exit/entry pair' is evaluated first. Raw inputs are weighted to final-sigma contexts, dotted capital I, sharp s, ligatures, all 25 White_Space code points, combining marks and numeric extremes. distinct = distinct (declaration, source kind, set of hop kinds executed, chain length) tuples.".into(),
            assumptions: vec![
                "the reference model is the identity function".into(),
                "malign faults (errors, torn data) are out of scope here by construction (they belong to C04/C10): 'same value' is only claimed over a transport that delivers every byte".into(),
                "seeded exploration: a clean run is evidence, not proof".into(),
            ],
            real_components: vec!["nutype_macros expansion from /repo (sanitizers, validators incl. LazyLock<Regex>, try_new/new, TryFrom, From, FromStr, Display, Into, AsRef, Deref, Serialize, Deserialize, Default, Arbitrary)", "serde_json / ron / rmp-serde", "arbitrary", "regex", "std (to_lowercase/to_uppercase/trim, float parsing and printing)"],
            stub_components: vec!["SimWriter / SimReader (benign plans only)", "SimSink (fmt::Write)", "byte source for Arbitrary"],
            extra,
            exhaustive: false,
        },
    );
    println!(
        "C11 S-CHAIN: {} evaluations in {} chains ({} with a value), {} distinct non-trivial, {} new violation signatures, {:.1}s",
        stats.evaluations, n, stats.get("chains_with_a_value"), stats.distinct.len(), out.new_violations, wall
    );
    if out.new_violations > 0 {
        report::EXIT_VIOLATION
    } else {
        report::EXIT_OK
    }
}

fn run_replay(cfg: &Config, path: &str) -> i32 {
    let text = std::fs::read_to_string(path).unwrap_or_else(|e| report::harness_error(&format!("cannot read {path}: {e}")));
    let v: Value = serde_json::from_str(&text).unwrap_or_else(|e| report::harness_error(&format!("bad replay file: {e}")));
    let want = v["invariant"].as_str().unwrap_or("").to_string();
    match exec_plan(&v["plan"]) {
        Err(e) => report::harness_error(&format!("cannot execute stored plan: {e}")),
        Ok(vs) => {
            if let Some((inv, d)) = vs.iter().find(|(i, _)| *i == want) {
                println!("REPRODUCED property={} decl={} invariant={} detail={}", cfg.property, v["decl"].as_str().unwrap_or("?"), inv, d.replace('\n', " "));
                report::EXIT_VIOLATION
            } else if let Some((inv, _)) = vs.first() {
                println!("REPLAY-DIVERGED: expected invariant {want}, got {inv}");
                report::EXIT_HARNESS
            } else {
                println!("NOT-REPRODUCED: the stored plan no longer violates C11 on this tree");
                report::EXIT_HARNESS
            }
        }
    }
}

fn main() {
    let args: Vec<String> = std::env::args().skip(1).collect();
    let cfg = Config::from_env(PROPERTY, &args);
    runner::quiet_panics();
    let code = match args.first().map(|s| s.as_str()) {
        Some("replay") => run_replay(&cfg, args.get(1).map(|s| s.as_str()).unwrap_or("")),
        Some("tracehash") => {
            let n: u64 = args.get(1).and_then(|s| s.parse().ok()).unwrap_or(4096);
            let st = sweep(&cfg, n, true, cfg.workers);
            let mut h = Fnv::default();
            for (i, l, v) in &st.trace {
                h.u64(*i);
                h.u64(*l);
                h.u64(*v as u64);
            }
            println!("TRACEHASH scenario=S-CHAIN seed={} runs={} hash={:016x}", cfg.seed, n, h.0);
            0
        }
        _ => run_check(&cfg),
    };
    std::process::exit(code);
}

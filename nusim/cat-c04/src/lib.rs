//! S-DESER catalogue (property C04): `#[nutype]` declarations deriving `Deserialize`, each with
//! a serde-derived twin of the SAME NAME in `twin::`, raw-value generators and the `Decl` glue.
//!
//! Nothing here depends on the harness binary. If this crate stops compiling while
//! `nutype`/`nutype_macros` build, the macro's `Deserialize`/`Serialize` output for an accepted
//! declaration is broken and the check reports that under C04.

#![allow(clippy::all)]

use std::borrow::Cow;
use std::sync::LazyLock;

use nutype::nutype;
use regex::Regex;
use serde::{Deserialize, Serialize};
use simcore::decl::{gen_char, gen_f32, gen_f64, gen_int, gen_string, Decl, Repr};
use simcore::rng::Rng;

pub static CODE_RE: LazyLock<Regex> = LazyLock::new(|| Regex::new("^[A-Z]{2}-[0-9]{1,4}$").unwrap());

#[derive(Debug, Clone, PartialEq)]
pub enum OddError {
    Odd,
}
impl std::fmt::Display for OddError {
    fn fmt(&self, f: &mut std::fmt::Formatter<'_>) -> std::fmt::Result {
        f.write_str("odd")
    }
}
impl std::error::Error for OddError {}
fn validate_even(x: &i8) -> Result<(), OddError> {
    if x % 2 == 0 {
        Ok(())
    } else {
        Err(OddError::Odd)
    }
}

const fn clamp_pct(x: u8) -> u8 {
    if x > 100 {
        100
    } else {
        x
    }
}

#[derive(Debug, Clone, PartialEq)]
pub enum WordError {
    Empty,
    HasSpace,
}
impl std::fmt::Display for WordError {
    fn fmt(&self, f: &mut std::fmt::Formatter<'_>) -> std::fmt::Result {
        write!(f, "{self:?}")
    }
}
impl std::error::Error for WordError {}
fn validate_word(s: &str) -> Result<(), WordError> {
    if s.is_empty() {
        Err(WordError::Empty)
    } else if s.contains(' ') {
        Err(WordError::HasSpace)
    } else {
        Ok(())
    }
}
#[derive(Debug, Clone, PartialEq)]
pub struct EchoError(pub String);
impl std::fmt::Display for EchoError {
    fn fmt(&self, f: &mut std::fmt::Formatter<'_>) -> std::fmt::Result {
        // Echoes the rejected value: error texts of arbitrary length and content.
        write!(f, "invalid value: {}", self.0)
    }
}
impl std::error::Error for EchoError {}
fn validate_echo(s: &str) -> Result<(), EchoError> {
    if s.contains('!') || s.chars().count() > 150 {
        Err(EchoError(s.to_string()))
    } else {
        Ok(())
    }
}
fn gen_long_text(r: &mut Rng) -> String {
    let n = match r.below(5) {
        0 => r.range_usize(0, 8),
        1 => r.range_usize(100, 140),
        _ => r.range_usize(20, 220),
    };
    let alphabet: &[char] = match r.below(4) {
        0 => &['a', 'b', '!'],
        1 => &['語', 'é', 'a', '!'],
        2 => &['😀', 'ß', 'x'],
        _ => &['語'],
    };
    let mut cs: Vec<char> = (0..n).map(|_| *r.pick(alphabet)).collect();
    if r.chance(1, 2) {
        let at = r.usize_below(cs.len() + 1);
        cs.insert(at, '!');
    }
    cs.into_iter().collect()
}
fn validate_point(p: &Point) -> Result<(), WordError> {
    if p.x == p.y {
        Err(WordError::Empty)
    } else {
        Ok(())
    }
}

#[derive(Debug, Clone, PartialEq, Serialize, Deserialize)]
pub struct Point {
    pub x: i32,
    pub y: i32,
}
impl Repr for Point {
    fn repr(&self) -> String {
        format!("P({},{})", self.x, self.y)
    }
}

macro_rules! construct_impl {
    (true, $name:ident, $raw:expr) => {
        $name::try_new($raw).map_err(|e| format!("{e:?}"))
    };
    (false, $name:ident, $raw:expr) => {
        Ok($name::new($raw))
    };
}

macro_rules! shapes_of {
    (true) => {
        simcore::shapes::AllShapes
    };
    (false) => {
        simcore::shapes::BasicShapes
    };
    (min) => {
        simcore::shapes::MinShapes
    };
}
macro_rules! is_core {
    (true) => {
        true
    };
    ($other:tt) => {
        false
    };
}

pub type Text = String;
pub type SmallInt = u8;

pub const fn non_negative_i16(x: i16) -> i16 {
    if x < 0 {
        0
    } else {
        x
    }
}

macro_rules! decls {
    (
        list = $list:ident, with = $with:ident, twin = $twin:ident;
        $(
            #[nutype( $($attr:tt)* )]
            struct $name:ident ( $($inner:tt)+ );
            family = $fam:expr;
            validated = $val:tt;
            core = $core:tt;
            gen = $gen:expr;
            corpus = $corpus:expr;
        )*
    ) => {
        $(
            #[nutype( $($attr)* )]
            pub struct $name( $($inner)+ );
        )*

        /// Plain serde-derived structs of the same names: what a document "carries".
        pub mod $twin {
            use super::*;
            $(
                #[derive(Serialize, Deserialize, Debug)]
                pub struct $name(pub $($inner)+);
            )*
        }

        $(
            impl Decl for $name {
                type Inner = $($inner)+;
                type TwinInner = $($inner)+;
                type Twin = $twin::$name;
                type Shapes = shapes_of!($core);
                const NAME: &'static str = stringify!($name);
                const TEXT: &'static str = stringify!($($attr)*);
                const FAMILY: &'static str = $fam;
                const HAS_VALIDATION: bool = $val;
                fn construct(raw: Self::Inner) -> Result<Self, String> {
                    construct_impl!($val, $name, raw)
                }
                fn into_inner(self) -> Self::Inner {
                    $name::into_inner(self)
                }
                fn inner_ref_repr(&self) -> String {
                    Repr::repr(&self.clone().into_inner())
                }
                fn lift(t: Self::TwinInner) -> Result<Self::Inner, String> {
                    Ok(t)
                }
                fn lower(i: &Self::Inner) -> Self::TwinInner {
                    i.clone()
                }
                fn twin_wrap(raw: Self::TwinInner) -> Self::Twin {
                    $twin::$name(raw)
                }
                fn twin_unwrap(t: Self::Twin) -> Self::TwinInner {
                    t.0
                }
                fn repr(inner: &Self::Inner) -> String {
                    Repr::repr(inner)
                }
                fn gen(rng: &mut Rng) -> Self::TwinInner {
                    let g: fn(&mut Rng) -> $($inner)+ = $gen;
                    g(rng)
                }
                fn corpus() -> Vec<Self::TwinInner> {
                    $corpus
                }
            }
        )*

        pub const $list: &[(&str, bool)] = &[ $( (stringify!($name), is_core!($core)), )* ];

        pub(crate) fn $with<V: DeclVisitor>(idx: usize, v: V) -> V::Out {
            let mut i = 0usize;
            $(
                if idx == i {
                    return v.visit::<$name>(is_core!($core));
                }
                i += 1;
            )*
            let _ = i;
            unreachable!("declaration index out of range")
        }
    };
}

pub trait DeclVisitor {
    type Out;
    fn visit<D: Decl>(self, core: bool) -> Self::Out;
}

fn s(x: &str) -> String {
    x.to_string()
}

decls! {
    list = SIMPLE_DECLS, with = with_simple, twin = twin;
    // ------------------------------------------------------------------ integers
    #[nutype(validate(greater_or_equal = 13, less_or_equal = 19), derive(Debug, Clone, PartialEq, Eq, PartialOrd, Ord, Serialize, Deserialize))]
    struct Teen(u8);
    family = "integer"; validated = true; core = true;
    gen = |r| gen_int(r, 13, 19, 0, 255) as u8;
    corpus = vec![13, 19, 16, 12, 20, 0, 255];

    #[nutype(sanitize(with = |x: i32| x.clamp(0, 200)), validate(less_or_equal = 100), derive(Debug, Clone, Serialize, Deserialize))]
    struct ClampI32(i32);
    family = "integer"; validated = true; core = true;
    gen = |r| gen_int(r, 0, 100, i32::MIN as i128, i32::MAX as i128) as i32;
    corpus = vec![0, 100, 101, -5, 250, i32::MIN, i32::MAX];

    #[nutype(derive(Debug, Clone, Serialize, Deserialize))]
    struct FreeI64(i64);
    family = "integer"; validated = false; core = false;
    gen = |r| gen_int(r, -10, 10, i64::MIN as i128, i64::MAX as i128) as i64;
    corpus = vec![0, -1, i64::MIN, i64::MAX];

    #[nutype(sanitize(with = |x: u16| x.wrapping_add(1)), derive(Debug, Clone, Serialize, Deserialize))]
    struct BumpU16(u16);
    family = "integer"; validated = false; core = true;
    gen = |r| gen_int(r, 0, 10, 0, 65535) as u16;
    corpus = vec![0, 1, 65535, 65534];

    #[nutype(validate(less = u64::MAX - 5), derive(Debug, Clone, Serialize, Deserialize))]
    struct U64Expr(u64);
    family = "integer"; validated = true; core = false;
    gen = |r| gen_int(r, 0, (u64::MAX - 6) as i128, 0, u64::MAX as i128) as u64;
    corpus = vec![0, u64::MAX - 6, u64::MAX - 5, u64::MAX];

    #[nutype(validate(greater = -1_000_000_000_000_000_000_000, less_or_equal = 1_000_000_000_000_000_000_000), derive(Debug, Clone, Serialize, Deserialize))]
    struct I128Wide(i128);
    family = "integer"; validated = true; core = false;
    gen = |r| gen_int(r, -999_999_999_999_999_999_999, 1_000_000_000_000_000_000_000, i128::MIN, i128::MAX);
    corpus = vec![0, -1_000_000_000_000_000_000_000, 1_000_000_000_000_000_000_000, 1_000_000_000_000_000_000_001, i128::MIN, i128::MAX, u64::MAX as i128 + 1];

    #[nutype(validate(predicate = |x| x % 2 == 0), derive(Debug, Clone, Serialize, Deserialize))]
    struct UsizeEven(usize);
    family = "integer"; validated = true; core = false;
    gen = |r| gen_int(r, 0, 100, 0, usize::MAX as i128) as usize;
    corpus = vec![0, 1, 2, usize::MAX, usize::MAX - 1];

    #[nutype(validate(with = validate_even, error = OddError), derive(Debug, Clone, Serialize, Deserialize))]
    struct EvenI8(i8);
    family = "integer"; validated = true; core = false;
    gen = |r| gen_int(r, -4, 4, -128, 127) as i8;
    corpus = vec![0, 1, -1, -128, 127];

    #[nutype(const_fn, sanitize(with = clamp_pct), validate(greater_or_equal = 5), derive(Debug, Clone, Serialize, Deserialize))]
    struct ConstPct(u8);
    family = "integer"; validated = true; core = false;
    gen = |r| gen_int(r, 5, 100, 0, 255) as u8;
    corpus = vec![5, 4, 100, 101, 255, 0];

    #[nutype(const_fn, derive(Debug, Clone, Serialize, Deserialize))]
    struct ConstFreeI16(i16);
    family = "integer"; validated = false; core = false;
    gen = |r| gen_int(r, -3, 3, -32768, 32767) as i16;
    corpus = vec![0, -32768, 32767];

    #[nutype(validate(greater = 1, less_or_equal = u128::MAX - 1), derive(Debug, Clone, Serialize, Deserialize))]
    struct U128Mid(u128);
    family = "integer"; validated = true; core = false;
    gen = |r| match r.below(6) { 0 => 0, 1 => 1, 2 => 2, 3 => u128::MAX, 4 => u128::MAX - 1, _ => (r.next_u64() as u128) << (r.below(64) as u32) };
    corpus = vec![0, 1, 2, u128::MAX - 1, u128::MAX, 1 << 64];

    #[nutype(validate(greater = -5), derive(Debug, Clone, Serialize, Deserialize))]
    struct IsizeGt(isize);
    family = "integer"; validated = true; core = false;
    gen = |r| gen_int(r, -4, 100, isize::MIN as i128, isize::MAX as i128) as isize;
    corpus = vec![-5, -4, -6, isize::MIN, isize::MAX];

    #[nutype(sanitize(with = |x: i16| x.clamp(-10, 10)), validate(greater_or_equal = -10, less_or_equal = 10), derive(Debug, Clone, Copy, PartialEq, Eq, PartialOrd, Ord, Hash, Display, FromStr, TryFrom, Into, AsRef, Deref, Borrow, Serialize, Deserialize))]
    struct ClampLeI16(i16);
    family = "integer"; validated = true; core = false;
    gen = |r| gen_int(r, -10, 10, -32768, 32767) as i16;
    corpus = vec![0, 10, 11, -11, 32767, -32768];

    #[nutype(sanitize(with = |x: u8| x.wrapping_mul(2)), validate(less = 100), derive(Debug, Clone, Serialize, Deserialize))]
    struct DoubleU8(u8);
    family = "integer"; validated = true; core = false;
    gen = |r| gen_int(r, 0, 60, 0, 255) as u8;
    corpus = vec![0, 49, 50, 60, 128, 200, 255];

    // ------------------------------------------------------------------ floats
    #[nutype(validate(finite), derive(Debug, Clone, PartialEq, Eq, PartialOrd, Ord, Serialize, Deserialize))]
    struct FiniteF64(f64);
    family = "float"; validated = true; core = true;
    gen = |r| gen_f64(r, -1e9, 1e9);
    corpus = vec![0.0, -0.0, 1.5, f64::MAX, f64::INFINITY, f64::NEG_INFINITY, f64::NAN, 5e-324];

    #[nutype(validate(finite, greater_or_equal = 0.0, less_or_equal = 1.0), derive(Debug, Clone, Serialize, Deserialize))]
    struct UnitF32(f32);
    family = "float"; validated = true; core = true;
    gen = |r| gen_f32(r, 0.0, 1.0);
    corpus = vec![0.0, -0.0, 1.0, 0.5, 1.0000001, -1e-45, f32::NAN, f32::INFINITY];

    #[nutype(validate(greater = 0.0), derive(Debug, Clone, Serialize, Deserialize))]
    struct OpenF64(f64);
    family = "float"; validated = true; core = false;
    gen = |r| gen_f64(r, 0.0, 1e6);
    corpus = vec![0.0, -0.0, 5e-324, 1.0, -1.0, f64::INFINITY, f64::NAN];

    #[nutype(sanitize(with = |x: f64| x.abs()), derive(Debug, Clone, Serialize, Deserialize))]
    struct AbsF64(f64);
    family = "float"; validated = false; core = false;
    gen = |r| gen_f64(r, -10.0, 10.0);
    corpus = vec![0.0, -0.0, -1.5, 1.5, f64::NEG_INFINITY];

    #[nutype(sanitize(with = |x: f32| x.clamp(-1.0, 1.0)), validate(less = 1.0), derive(Debug, Clone, Serialize, Deserialize))]
    struct ClampF32(f32);
    family = "float"; validated = true; core = false;
    gen = |r| gen_f32(r, -1.0, 1.0);
    corpus = vec![0.0, 1.0, 0.99999994, 2.0, -2.0, f32::NAN];

    #[nutype(const_fn, validate(greater_or_equal = -1.0, less = 1.0), derive(Debug, Clone, Serialize, Deserialize))]
    struct ConstRatio(f64);
    family = "float"; validated = true; core = false;
    gen = |r| gen_f64(r, -1.0, 1.0);
    corpus = vec![-1.0, 1.0, 0.9999999999999999, -1.0000000000000002, -0.0, f64::NAN];

    #[nutype(validate(predicate = |x| x.fract() == 0.0), derive(Debug, Clone, Serialize, Deserialize))]
    struct WholeF64(f64);
    family = "float"; validated = true; core = false;
    gen = |r| if r.chance(1, 2) { gen_f64(r, -8.0, 8.0).round() } else { gen_f64(r, -8.0, 8.0) };
    corpus = vec![0.0, -0.0, 1.0, 1.5, 9007199254740992.0, f64::NAN, f64::INFINITY];

    #[nutype(sanitize(with = |x: f32| x.clamp(-1.0, 1.0)), validate(greater_or_equal = -1.0, less_or_equal = 1.0), derive(Debug, Clone, Copy, PartialEq, PartialOrd, Display, FromStr, TryFrom, Into, AsRef, Deref, Borrow, Serialize, Deserialize))]
    struct ClampLeF32(f32);
    family = "float"; validated = true; core = false;
    gen = |r| gen_f32(r, -1.0, 1.0);
    corpus = vec![0.0, 1.0, 1.0000001, 2.0, -2.0, f32::INFINITY, f32::NAN];

    #[nutype(sanitize(with = |x: f64| x * 100.0), validate(less_or_equal = 100.0), derive(Debug, Clone, Serialize, Deserialize))]
    struct ScaleF64(f64);
    family = "float"; validated = true; core = false;
    gen = |r| gen_f64(r, 0.0, 2.0);
    corpus = vec![0.0, 1.0, 1.5, 1.0000000000000002, -3.0, 150.0];

    // ------------------------------------------------------------------ strings
    #[nutype(sanitize(trim), validate(not_empty, len_char_max = 8), derive(Debug, Clone, PartialEq, Eq, PartialOrd, Ord, Serialize, Deserialize))]
    struct Name(String);
    family = "string"; validated = true; core = true;
    gen = |r| gen_string(r, 8);
    corpus = vec![s("bob"), s("  bob  "), s(""), s("   "), s("12345678"), s("123456789"), s(" 12345678 "), s("ßßßßßßßß"), s("\u{2003}x\u{3000}")];

    #[nutype(sanitize(trim, lowercase), validate(regex = "^[a-z0-9-]{1,12}$"), derive(Debug, Clone, Serialize, Deserialize))]
    struct Slug(String);
    family = "string"; validated = true; core = true;
    gen = |r| {
        if r.chance(1, 2) {
            let n = r.range_usize(0, 13);
            let mut out = String::new();
            if r.chance(1, 3) { out.push(' '); }
            for _ in 0..n {
                out.push(*r.pick(&['a', 'Z', '0', '-', 'q', 'K', '9', 'İ', '_']));
            }
            if r.chance(1, 3) { out.push('\n'); }
            out
        } else {
            gen_string(r, 12)
        }
    };
    corpus = vec![s("abc-1"), s("  ABC-1 "), s(""), s("a_b"), s("abcdefghijkl"), s("abcdefghijklm"), s("K"), s("İ")];

    // a regex given BY PATH next to other validators (validators are matched by kind in several
    // places of the macro; the path form is the rarely used one)
    #[nutype(sanitize(trim), validate(len_char_max = 9, regex = CODE_RE, not_empty), derive(Debug, Clone, Serialize, Deserialize))]
    struct CodeMulti(String);
    family = "string"; validated = true; core = false;
    gen = |r| {
        if r.chance(1, 2) {
            format!("{}{}-{}", (b'A' + r.below(26) as u8) as char, *r.pick(&['B', 'b', 'Z', '1']), r.below(20000))
        } else {
            gen_string(r, 7)
        }
    };
    corpus = vec![s("AB-12"), s(" AB-1 "), s("ab-12"), s("no spaces"), s(""), s("AB-12345"), s("abcdefghij")];

    #[nutype(validate(regex = CODE_RE), derive(Debug, Clone, Serialize, Deserialize))]
    struct Code(String);
    family = "string"; validated = true; core = false;
    gen = |r| {
        if r.chance(2, 3) {
            format!("{}{}-{}", (b'A' + r.below(26) as u8) as char, *r.pick(&['B', 'b', 'Z', '1']), r.below(20000))
        } else {
            gen_string(r, 7)
        }
    };
    corpus = vec![s("AB-1"), s("AB-12345"), s("ab-1"), s("AB-"), s(" AB-1")];

    #[nutype(sanitize(uppercase), validate(len_char_min = 2, len_char_max = 6), derive(Debug, Clone, Serialize, Deserialize))]
    struct Shout(String);
    family = "string"; validated = true; core = true;
    gen = |r| gen_string(r, 6);
    corpus = vec![s("ab"), s("a"), s("ß"), s("ßßß"), s("ßßßß"), s("abcdef"), s("abcdefg"), s("ŉŉŉ"), s("ﬃﬃ")];

    #[nutype(derive(Debug, Clone, Serialize, Deserialize))]
    struct FreeText(String);
    family = "string"; validated = false; core = false;
    gen = |r| gen_string(r, 10);
    corpus = vec![s(""), s(" x "), s("\u{0}\"\\"), s("😀")];

    #[nutype(sanitize(trim, uppercase), derive(Debug, Clone, Serialize, Deserialize))]
    struct TrimUpper(String);
    family = "string"; validated = false; core = false;
    gen = |r| gen_string(r, 6);
    corpus = vec![s(""), s(" x "), s("ß "), s("\u{2003}ǆ")];

    #[nutype(validate(predicate = |v: &str| v.chars().eq(v.chars().rev())), derive(Debug, Clone, Serialize, Deserialize))]
    struct Palindrome(String);
    family = "string"; validated = true; core = false;
    gen = |r| {
        let mut h = gen_string(r, 3);
        if r.chance(2, 3) {
            let rev: String = h.chars().rev().collect();
            h.push_str(&rev);
        }
        h
    };
    corpus = vec![s(""), s("a"), s("abba"), s("ab"), s("ßß")];

    #[nutype(sanitize(with = |v: String| format!("<{v}>")), derive(Debug, Clone, Serialize, Deserialize))]
    struct Tagged(String);
    family = "string"; validated = false; core = true;
    gen = |r| gen_string(r, 4);
    corpus = vec![s(""), s("x"), s("<x>")];

    #[nutype(sanitize(trim), validate(with = validate_word, error = WordError), derive(Debug, Clone, Serialize, Deserialize))]
    struct Word(String);
    family = "string"; validated = true; core = false;
    gen = |r| gen_string(r, 5);
    corpus = vec![s("a"), s(" a "), s(""), s("  "), s("a b")];

    #[nutype(validate(with = validate_echo, error = EchoError), derive(Debug, Clone, Serialize, Deserialize))]
    struct Echo(String);
    family = "string"; validated = true; core = false;
    gen = |r| gen_long_text(r);
    corpus = vec![s("ok"), s("no!"), "語".repeat(100), format!("{}!", "語".repeat(60)), format!("!{}", "é".repeat(70))];

    #[nutype(sanitize(trim), default = "n/a", derive(Debug, Clone, Serialize, Deserialize, Default))]
    struct NoteD(String);
    family = "string"; validated = false; core = false;
    gen = |r| if r.chance(1, 3) { s(*r.pick(&["", " ", "\t\n", "n/a"])) } else { gen_string(r, 4) };
    corpus = vec![s(""), s("  "), s("x"), s("n/a")];

    #[nutype(sanitize(trim), validate(len_char_max = 5), default = "dflt", derive(Debug, Clone, Serialize, Deserialize, Default))]
    struct TagD(String);
    family = "string"; validated = true; core = false;
    gen = |r| if r.chance(1, 3) { s(*r.pick(&["", " ", "\u{3000}", "dflt"])) } else { gen_string(r, 5) };
    corpus = vec![s(""), s("  "), s("x"), s("dflt"), s("toolong")];

    // ------------------------------------------------------------------ other inner types
    #[nutype(validate(predicate = |p| p.x <= p.y), derive(Debug, Clone, Serialize, Deserialize))]
    struct OrderedPoint(Point);
    family = "other"; validated = true; core = true;
    gen = |r| Point { x: gen_int(r, -3, 3, i32::MIN as i128, i32::MAX as i128) as i32, y: gen_int(r, -3, 3, i32::MIN as i128, i32::MAX as i128) as i32 };
    corpus = vec![Point { x: 0, y: 0 }, Point { x: 1, y: 0 }, Point { x: -1, y: 5 }, Point { x: i32::MAX, y: i32::MIN }];

    #[nutype(validate(predicate = |o| o.map_or(true, |x| x < 10)), derive(Debug, Clone, Serialize, Deserialize))]
    struct MaybeSmall(Option<u8>);
    family = "other"; validated = true; core = true;
    gen = |r| if r.chance(1, 4) { None } else { Some(gen_int(r, 0, 9, 0, 255) as u8) };
    corpus = vec![None, Some(0), Some(9), Some(10), Some(255)];

    // inner types spelled as an alias or a qualified path: the macro sees only syntax and treats
    // them as the `any` family although they are String / u8
    #[nutype(sanitize(with = |s: Text| s.trim().to_lowercase()), validate(predicate = |s| !s.is_empty()), derive(Debug, Clone, Serialize, Deserialize))]
    struct AliasText(Text);
    family = "other"; validated = true; core = false;
    gen = |r| gen_string(r, 6);
    corpus = vec![s(""), s(" Ab "), s("x"), s("  ")];

    #[nutype(sanitize(with = |s: std::string::String| s.trim().to_string()), validate(predicate = |s| s.chars().count() <= 6), derive(Debug, Clone, Serialize, Deserialize))]
    struct PathString(std::string::String);
    family = "other"; validated = true; core = false;
    gen = |r| gen_string(r, 8);
    corpus = vec![s(""), s(" abcdef "), s("abcdefg"), s("ßßßßßß")];

    #[nutype(validate(predicate = |x| *x < 200), derive(Debug, Clone, Serialize, Deserialize))]
    struct AliasU8(SmallInt);
    family = "other"; validated = true; core = false;
    gen = |r| r.below(256) as u8;
    corpus = vec![0, 199, 200, 255];

    // `new_unchecked` opted in: the unsafe constructor must stay the only way around the guards
    #[nutype(new_unchecked, sanitize(trim), validate(not_empty, len_char_max = 8), derive(Debug, Clone, Serialize, Deserialize))]
    struct UncheckedName(String);
    family = "string"; validated = true; core = false;
    gen = |r| gen_string(r, 10);
    corpus = vec![String::new(), " a ".to_string(), "123456789".to_string(), "  12345678  ".to_string()];

    #[nutype(new_unchecked, const_fn, sanitize(with = non_negative_i16), validate(less = 1000), derive(Debug, Clone, Serialize, Deserialize))]
    struct UncheckedI16(i16);
    family = "integer"; validated = true; core = false;
    gen = |r| gen_int(r, -5, 1005, i16::MIN as i128, i16::MAX as i128) as i16;
    corpus = vec![-1, 0, 999, 1000, i16::MAX, i16::MIN];

    // iterable inner types that do NOT serialize as a plain sequence, deriving IntoIterator as well
    #[nutype(validate(predicate = |m| m.len() <= 3), derive(Debug, Clone, PartialEq, Serialize, Deserialize, IntoIterator))]
    struct Scores(std::collections::BTreeMap<String, u32>);
    family = "other"; validated = true; core = false;
    gen = |r| (0..r.below(5)).map(|i| (format!("k{}{}", i, gen_string(r, 2)), r.below(1000) as u32)).collect();
    corpus = vec![std::collections::BTreeMap::new(), [(s("a"), 1u32)].into_iter().collect(), [(s("a"), 1u32), (s("b"), 2), (s("c"), 3), (s("d"), 4)].into_iter().collect()];

    #[nutype(validate(predicate = |o| o.map_or(true, |x| x % 2 == 0)), derive(Debug, Clone, Copy, PartialEq, Serialize, Deserialize, IntoIterator))]
    struct MaybeEven(Option<u8>);
    family = "other"; validated = true; core = false;
    gen = |r| if r.chance(1, 4) { None } else { Some(r.below(256) as u8) };
    corpus = vec![None, Some(0), Some(1), Some(254)];

    // fixed-size arrays as inner type (serde writes arrays as TUPLES, slices as sequences; RON tells
    // them apart)
    #[nutype(validate(predicate = |c| c.iter().any(|x| *x != 0)), derive(Debug, Clone, Serialize, Deserialize))]
    struct Rgb([u8; 3]);
    family = "other"; validated = true; core = false;
    gen = |r| if r.chance(1, 5) { [0, 0, 0] } else { [r.below(256) as u8, r.below(256) as u8, r.below(256) as u8] };
    corpus = vec![[0, 0, 0], [255, 128, 1], [0, 0, 1]];

    #[nutype(sanitize(with = |mut g: [[i8; 2]; 2]| { g[0].sort(); g[1].sort(); g }), derive(Debug, Clone, Serialize, Deserialize))]
    struct Grid([[i8; 2]; 2]);
    family = "other"; validated = false; core = false;
    gen = |r| [[r.below(256) as u8 as i8, r.below(256) as u8 as i8], [r.below(3) as i8, -1]];
    corpus = vec![[[0, 0], [0, 0]], [[5, -5], [127, -128]]];

    // unit, optional text, nested option, sequence of pairs: inner values whose encodings are
    // "nothing", null, or a container (formats treat these specially)
    #[nutype(derive(Debug, Clone, Serialize, Deserialize))]
    struct Nothing(());
    family = "other"; validated = false; core = false;
    gen = |_r| ();
    corpus = vec![()];

    #[nutype(sanitize(with = |o: Option<String>| o.map(|s| s.trim().to_string()).filter(|s| !s.is_empty())), derive(Debug, Clone, Serialize, Deserialize))]
    struct MaybeText(Option<String>);
    family = "other"; validated = false; core = false;
    gen = |r| if r.chance(1, 3) { None } else { Some(gen_string(r, 4)) };
    corpus = vec![None, Some(String::new()), Some(" a ".to_string()), Some("x".to_string())];

    #[nutype(validate(predicate = |o| !matches!(o, Some(None))), derive(Debug, Clone, Serialize, Deserialize))]
    struct NestedOpt(Option<Option<u8>>);
    family = "other"; validated = true; core = false;
    gen = |r| match r.below(3) { 0 => None, 1 => Some(None), _ => Some(Some(r.below(256) as u8)) };
    corpus = vec![None, Some(None), Some(Some(0)), Some(Some(255))];

    #[nutype(validate(predicate = |v| v.len() <= 3), derive(Debug, Clone, Serialize, Deserialize))]
    struct FewPairs(Vec<(u8, String)>);
    family = "other"; validated = true; core = false;
    gen = |r| (0..r.below(5)).map(|_| (r.below(256) as u8, gen_string(r, 3))).collect();
    corpus = vec![vec![], vec![(0, String::new())], vec![(1, "a".to_string()), (2, "b".to_string()), (3, "c".to_string()), (4, "d".to_string())]];

    // an inner type whose encoding depends on `is_human_readable()` (text in JSON/RON, a tagged
    // byte tuple in MessagePack): the flag has to reach the inner value unchanged in both directions
    #[nutype(validate(predicate = |ip| !ip.is_unspecified()), derive(Debug, Clone, Serialize, Deserialize))]
    struct Addr(std::net::IpAddr);
    family = "other"; validated = true; core = false;
    gen = |r| match r.below(4) {
        0 => std::net::IpAddr::V4(std::net::Ipv4Addr::new(0, 0, 0, 0)),
        1 => std::net::IpAddr::V6(std::net::Ipv6Addr::new(0, 0, 0, 0, 0, 0, 0, r.below(2) as u16)),
        2 => std::net::IpAddr::V4(std::net::Ipv4Addr::new(r.below(256) as u8, r.below(256) as u8, 0, 1)),
        _ => std::net::IpAddr::V6(std::net::Ipv6Addr::new(r.below(65536) as u16, 0, 0, 0, 0, 0xffff, r.below(65536) as u16, 1)),
    };
    corpus = vec![
        std::net::IpAddr::V4(std::net::Ipv4Addr::new(127, 0, 0, 1)),
        std::net::IpAddr::V4(std::net::Ipv4Addr::new(0, 0, 0, 0)),
        std::net::IpAddr::V6(std::net::Ipv6Addr::new(0, 0, 0, 0, 0, 0, 0, 0)),
        std::net::IpAddr::V6(std::net::Ipv6Addr::new(0, 0, 0, 0, 0, 0xffff, 0x7f00, 1)),
    ];

    #[nutype(validate(predicate = |b| *b), derive(Debug, Clone, Serialize, Deserialize))]
    struct MustBeTrue(bool);
    family = "other"; validated = true; core = true;
    gen = |r| r.chance(1, 2);
    corpus = vec![true, false];

    #[nutype(sanitize(with = |p: (u8, String)| (p.0 / 2, p.1.trim().to_string())), validate(predicate = |p| !p.1.is_empty()), derive(Debug, Clone, Serialize, Deserialize))]
    struct HalfPair((u8, String));
    family = "other"; validated = true; core = false;
    gen = |r| (r.below(256) as u8, gen_string(r, 3));
    corpus = vec![(0, s("a")), (255, s(" a ")), (3, s("  ")), (4, s(""))];

    #[nutype(validate(with = validate_point, error = WordError), derive(Debug, Clone, Serialize, Deserialize))]
    struct OffDiagonal(Point);
    family = "other"; validated = true; core = false;
    gen = |r| Point { x: gen_int(r, -2, 2, -9, 9) as i32, y: gen_int(r, -2, 2, -9, 9) as i32 };
    corpus = vec![Point { x: 0, y: 0 }, Point { x: 1, y: 0 }, Point { x: -9, y: 9 }];

    #[nutype(default = vec![1, 2, 3], derive(Debug, Clone, Serialize, Deserialize, Default, IntoIterator))]
    struct LevelsD(Vec<u8>);
    family = "other"; validated = false; core = false;
    gen = |r| { let n = if r.chance(1, 120) { *r.pick(&[70u64, 300, 5000, 70000]) } else { r.below(3) }; (0..n).map(|_| r.below(256) as u8).collect() };
    corpus = vec![vec![], vec![0], vec![1, 2, 3]];

    #[nutype(validate(predicate = |c| c.is_alphabetic()), derive(Debug, Clone, Serialize, Deserialize))]
    struct Letter(char);
    family = "other"; validated = true; core = false;
    gen = |r| gen_char(r);
    corpus = vec!['a', 'ß', '1', ' ', '\u{10FFFF}', '\0'];
}

// ---------------------------------------------------------------------- generic / nested / Cow

#[nutype(
    validate(predicate = |v| !v.is_empty()),
    derive(Debug, Clone, Serialize, Deserialize)
)]
pub struct NonEmptyVec<T>(Vec<T>);

#[nutype(
    sanitize(with = |mut v| { v.sort(); v }),
    derive(Debug, Clone, Serialize, Deserialize)
)]
pub struct Sorted<T: Ord>(Vec<T>);

#[nutype(
    validate(predicate = |v| v.len() < 6),
    derive(Debug, Clone, Serialize, Deserialize)
)]
pub struct CowStr<'a>(Cow<'a, str>);

/// Two type parameters.
#[nutype(
    sanitize(with = |p| p),
    validate(predicate = |p| p.0 != p.1),
    derive(Debug, Clone, Serialize, Deserialize)
)]
pub struct Distinct<A: PartialEq<B>, B>((A, B));

/// A newtype over a newtype: both constructors must run.
#[nutype(
    validate(predicate = |t| *t.as_ref() != 15),
    derive(Debug, Clone, Serialize, Deserialize)
)]
pub struct NotFifteen(TeenRef);

#[nutype(
    validate(greater_or_equal = 13, less_or_equal = 19),
    derive(Debug, Clone, AsRef, Serialize, Deserialize)
)]
pub struct TeenRef(u8);

pub mod twin_special {
    use super::*;
    #[derive(Serialize, Deserialize, Debug)]
    pub struct NonEmptyVec<T>(pub Vec<T>);
    #[derive(Serialize, Deserialize, Debug)]
    pub struct Sorted<T>(pub Vec<T>);
    #[derive(Serialize, Deserialize, Debug)]
    pub struct CowStr<'a>(pub Cow<'a, str>);
    #[derive(Serialize, Deserialize, Debug)]
    pub struct Distinct<A, B>(pub (A, B));
    #[derive(Serialize, Deserialize, Debug, Clone)]
    pub struct TeenRef(pub u8);
    #[derive(Serialize, Deserialize, Debug)]
    pub struct NotFifteen(pub TeenRef);
}

impl Decl for NonEmptyVec<i16> {
    type Inner = Vec<i16>;
    type TwinInner = Vec<i16>;
    type Twin = twin_special::NonEmptyVec<i16>;
    type Shapes = simcore::shapes::AllShapes;
    const NAME: &'static str = "NonEmptyVec";
    const TEXT: &'static str = "validate(predicate = |v| !v.is_empty()), derive(Debug, Clone, Serialize, Deserialize)  // struct NonEmptyVec<T>(Vec<T>), T = i16";
    const FAMILY: &'static str = "other";
    const HAS_VALIDATION: bool = true;
    fn construct(raw: Vec<i16>) -> Result<Self, String> {
        NonEmptyVec::try_new(raw).map_err(|e| format!("{e:?}"))
    }
    fn into_inner(self) -> Vec<i16> {
        NonEmptyVec::into_inner(self)
    }
    fn inner_ref_repr(&self) -> String {
        Repr::repr(&self.clone().into_inner())
    }
    fn lift(t: Vec<i16>) -> Result<Vec<i16>, String> {
        Ok(t)
    }
    fn lower(i: &Vec<i16>) -> Vec<i16> {
        i.clone()
    }
    fn twin_wrap(raw: Vec<i16>) -> Self::Twin {
        twin_special::NonEmptyVec(raw)
    }
    fn twin_unwrap(t: Self::Twin) -> Vec<i16> {
        t.0
    }
    fn repr(inner: &Vec<i16>) -> String {
        Repr::repr(inner)
    }
    fn gen(rng: &mut Rng) -> Vec<i16> {
        let n = if rng.chance(1, 120) { *rng.pick(&[70usize, 300, 1500, 70000]) } else if rng.chance(1, 3) { 0 } else { rng.range_usize(1, 3) };
        (0..n).map(|_| gen_int(rng, -2, 2, -32768, 32767) as i16).collect()
    }
    fn corpus() -> Vec<Vec<i16>> {
        vec![vec![], vec![0], vec![-32768, 32767]]
    }
}

impl Decl for Sorted<String> {
    type Inner = Vec<String>;
    type TwinInner = Vec<String>;
    type Twin = twin_special::Sorted<String>;
    type Shapes = simcore::shapes::BasicShapes;
    const NAME: &'static str = "Sorted";
    const TEXT: &'static str = "sanitize(with = |mut v| { v.sort(); v }), derive(Debug, Clone, Serialize, Deserialize)  // struct Sorted<T: Ord>(Vec<T>), T = String";
    const FAMILY: &'static str = "other";
    const HAS_VALIDATION: bool = false;
    fn construct(raw: Vec<String>) -> Result<Self, String> {
        Ok(Sorted::new(raw))
    }
    fn into_inner(self) -> Vec<String> {
        Sorted::into_inner(self)
    }
    fn inner_ref_repr(&self) -> String {
        Repr::repr(&self.clone().into_inner())
    }
    fn lift(t: Vec<String>) -> Result<Vec<String>, String> {
        Ok(t)
    }
    fn lower(i: &Vec<String>) -> Vec<String> {
        i.clone()
    }
    fn twin_wrap(raw: Vec<String>) -> Self::Twin {
        twin_special::Sorted(raw)
    }
    fn twin_unwrap(t: Self::Twin) -> Vec<String> {
        t.0
    }
    fn repr(inner: &Vec<String>) -> String {
        Repr::repr(inner)
    }
    fn gen(rng: &mut Rng) -> Vec<String> {
        let n = if rng.chance(1, 120) { *rng.pick(&[70usize, 300, 1500]) } else { rng.range_usize(0, 3) };
        (0..n).map(|_| gen_string(rng, 2)).collect()
    }
    fn corpus() -> Vec<Vec<String>> {
        vec![vec![], vec![s("b"), s("a")], vec![s("a"), s("B"), s("")]]
    }
}

impl Decl for CowStr<'static> {
    type Inner = Cow<'static, str>;
    type TwinInner = String;
    type Twin = twin_special::CowStr<'static>;
    type Shapes = simcore::shapes::BasicShapes;
    const NAME: &'static str = "CowStr";
    const TEXT: &'static str = "validate(predicate = |v| v.len() < 6), derive(Debug, Clone, Serialize, Deserialize)  // struct CowStr<'a>(Cow<'a, str>)";
    const FAMILY: &'static str = "other";
    const HAS_VALIDATION: bool = true;
    fn construct(raw: Cow<'static, str>) -> Result<Self, String> {
        CowStr::try_new(raw).map_err(|e| format!("{e:?}"))
    }
    fn into_inner(self) -> Cow<'static, str> {
        CowStr::into_inner(self)
    }
    fn inner_ref_repr(&self) -> String {
        Repr::repr(&self.clone().into_inner())
    }
    fn lift(t: String) -> Result<Cow<'static, str>, String> {
        Ok(Cow::Owned(t))
    }
    fn lower(i: &Cow<'static, str>) -> String {
        i.to_string()
    }
    fn twin_wrap(raw: String) -> Self::Twin {
        twin_special::CowStr(Cow::Owned(raw))
    }
    fn twin_unwrap(t: Self::Twin) -> String {
        t.0.into_owned()
    }
    fn repr(inner: &Cow<'static, str>) -> String {
        Repr::repr(inner)
    }
    fn gen(rng: &mut Rng) -> String {
        gen_string(rng, 5)
    }
    fn corpus() -> Vec<String> {
        vec![s(""), s("12345"), s("123456"), s("ßßß")]
    }
}

impl Decl for NotFifteen {
    type Inner = TeenRef;
    type TwinInner = twin_special::TeenRef;
    type Twin = twin_special::NotFifteen;
    type Shapes = simcore::shapes::AllShapes;
    const NAME: &'static str = "NotFifteen";
    const TEXT: &'static str = "validate(predicate = |t| *t.as_ref() != 15), derive(Debug, Clone, Serialize, Deserialize)  // struct NotFifteen(TeenRef), TeenRef = nutype u8 in 13..=19";
    const FAMILY: &'static str = "other";
    const HAS_VALIDATION: bool = true;
    fn construct(raw: TeenRef) -> Result<Self, String> {
        NotFifteen::try_new(raw).map_err(|e| format!("{e:?}"))
    }
    fn into_inner(self) -> TeenRef {
        NotFifteen::into_inner(self)
    }
    fn inner_ref_repr(&self) -> String {
        Repr::repr(&self.clone().into_inner().into_inner())
    }
    fn lift(t: twin_special::TeenRef) -> Result<TeenRef, String> {
        TeenRef::try_new(t.0).map_err(|e| format!("{e:?}"))
    }
    fn lower(i: &TeenRef) -> twin_special::TeenRef {
        twin_special::TeenRef(i.clone().into_inner())
    }
    fn twin_wrap(raw: twin_special::TeenRef) -> Self::Twin {
        twin_special::NotFifteen(raw)
    }
    fn twin_unwrap(t: Self::Twin) -> twin_special::TeenRef {
        t.0
    }
    fn repr(inner: &TeenRef) -> String {
        Repr::repr(&inner.clone().into_inner())
    }
    fn gen(rng: &mut Rng) -> twin_special::TeenRef {
        twin_special::TeenRef(gen_int(rng, 13, 19, 0, 255) as u8)
    }
    fn corpus() -> Vec<twin_special::TeenRef> {
        vec![twin_special::TeenRef(13), twin_special::TeenRef(15), twin_special::TeenRef(12), twin_special::TeenRef(19), twin_special::TeenRef(20)]
    }
}

impl Decl for Distinct<u8, u8> {
    type Inner = (u8, u8);
    type TwinInner = (u8, u8);
    type Twin = twin_special::Distinct<u8, u8>;
    type Shapes = simcore::shapes::BasicShapes;
    const NAME: &'static str = "Distinct";
    const TEXT: &'static str = "sanitize(with = |p| p), validate(predicate = |p| p.0 != p.1), derive(Debug, Clone, Serialize, Deserialize)  // struct Distinct<A: PartialEq<B>, B>((A, B)), A = B = u8";
    const FAMILY: &'static str = "other";
    const HAS_VALIDATION: bool = true;
    fn construct(raw: (u8, u8)) -> Result<Self, String> {
        Distinct::try_new(raw).map_err(|e| format!("{e:?}"))
    }
    fn into_inner(self) -> (u8, u8) {
        Distinct::into_inner(self)
    }
    fn inner_ref_repr(&self) -> String {
        Repr::repr(&self.clone().into_inner())
    }
    fn lift(t: (u8, u8)) -> Result<(u8, u8), String> {
        Ok(t)
    }
    fn lower(i: &(u8, u8)) -> (u8, u8) {
        *i
    }
    fn twin_wrap(raw: (u8, u8)) -> Self::Twin {
        twin_special::Distinct(raw)
    }
    fn twin_unwrap(t: Self::Twin) -> (u8, u8) {
        t.0
    }
    fn repr(inner: &(u8, u8)) -> String {
        Repr::repr(inner)
    }
    fn gen(rng: &mut Rng) -> (u8, u8) {
        let a = rng.below(4) as u8;
        (a, if rng.chance(1, 3) { a } else { rng.below(256) as u8 })
    }
    fn corpus() -> Vec<(u8, u8)> {
        vec![(0, 0), (0, 1), (255, 255), (255, 0)]
    }
}

pub const SPECIAL_DECLS: &[(&str, bool)] = &[("NonEmptyVec", true), ("Sorted", false), ("CowStr", false), ("NotFifteen", true), ("Distinct", false)];

mod matrix;
pub use matrix::MATRIX_DECLS;

fn table(idx: usize) -> (&'static str, bool) {
    let (a, b) = (SIMPLE_DECLS.len(), SPECIAL_DECLS.len());
    if idx < a {
        SIMPLE_DECLS[idx]
    } else if idx < a + b {
        SPECIAL_DECLS[idx - a]
    } else {
        MATRIX_DECLS[idx - a - b]
    }
}

pub fn n_decls() -> usize {
    SIMPLE_DECLS.len() + SPECIAL_DECLS.len() + MATRIX_DECLS.len()
}

pub fn decl_name(idx: usize) -> &'static str {
    table(idx).0
}

pub fn decl_index(name: &str) -> Option<usize> {
    (0..n_decls()).find(|i| decl_name(*i) == name)
}

pub fn decl_is_core(idx: usize) -> bool {
    table(idx).1
}

pub fn with_decl<V: DeclVisitor>(idx: usize, v: V) -> V::Out {
    let (a, b) = (SIMPLE_DECLS.len(), SPECIAL_DECLS.len());
    if idx < a {
        return with_simple(idx, v);
    }
    if idx >= a + b {
        return matrix::with_matrix(idx - a - b, v);
    }
    match idx - a {
        0 => v.visit::<NonEmptyVec<i16>>(true),
        1 => v.visit::<Sorted<String>>(false),
        2 => v.visit::<CowStr<'static>>(false),
        3 => v.visit::<NotFifteen>(true),
        4 => v.visit::<Distinct<u8, u8>>(false),
        _ => unreachable!("declaration index out of range"),
    }
}

/// Declarations whose sanitizer is not idempotent: re-submitting a held value to the constructor
/// is not an identity there, so oracles that re-submit held values leave them out.
pub const NOT_IDEMPOTENT: &[&str] = &["BumpU16", "Tagged", "HalfPair", "DoubleU8", "ScaleF64"];

//! S-SER catalogue (property C10). The property quantifies over declarations deriving
//! Serialize + Deserialize with built-in or idempotent sanitizers: that is the S-DESER
//! catalogue minus the declarations whose custom sanitizer is deliberately NOT idempotent
//! (those exist to expose double sanitisation under C04 and have no round trip to speak of).
//!
//! If `cat-c04` stops compiling while nutype itself builds, the macro's Serialize/Deserialize
//! output for an accepted declaration is broken; the check reports that under C10 as well.

pub use cat_c04::*;

/// Declarations excluded from C10 (non-idempotent custom sanitizers).
pub use cat_c04::NOT_IDEMPOTENT;

pub fn c10_decls() -> Vec<usize> {
    (0..n_decls()).filter(|i| !NOT_IDEMPOTENT.contains(&decl_name(*i))).collect()
}

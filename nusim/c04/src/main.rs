//! S-DESER (property C04): deserialization through simulated stores and streams, a byzantine
//! format peer, and a complete single-fault enumeration over a fixed corpus.
//!
//! Sub-scenarios, each with its own counters:
//!   enum     seed-independent: fixed corpus x {every cut, every bit flip, hard error at every
//!            read call for chunk sizes 1/3/whole, benign chunkings}
//!   session  seeded multi-fault sessions on a SimDisk (put/sync/crash/corrupt/overwrite/get)
//!   byz      SimFormat peer: byzantine visitor calls and format errors at the k-th call

mod handcrafted;

use std::collections::BTreeMap;
use std::time::{Duration, Instant};

use cat_c04::{decl_index, decl_is_core, decl_name, n_decls, with_decl, DeclVisitor};
use serde::{Deserialize, Serialize};
use serde_json::{json, Map, Value};
use simcore::codec::{Api, Format};
use simcore::decl::Decl;
use simcore::diff::{build_doc, diff_get, diff_in_place, diff_stream, read_one_side, GetResult, Side};
use simcore::report::{self, hex, unhex, Config, EvidenceExtra};
use simcore::rng::{Fnv, Rng};
use simcore::runner::{self, Stats, Violation, WorkerCtx};
use simcore::shapes::{arity, Aux, ShapeId};
use simcore::simformat::{Byz, Tok};
use simcore::simio::{apply_corrupt, Corrupt, CrashMode, IoErr, ReadStep, SimDisk, SimReader, WriteStep};
use simcore::tokdiff::{build_tokens, diff_tokens};

const PROPERTY: &str = "C04";
const SC_SESSION: u64 = 401;
const SC_BYZ: u64 = 402;
const HANG_LIMIT: Duration = Duration::from_secs(120);

// ------------------------------------------------------------------------------------ plans

#[derive(Serialize, Deserialize, Clone, Debug)]
enum Op {
    Put { blob: u8, kind: String, bytes_hex: String, wplan: Vec<WriteStep>, tail: u32 },
    Sync { blob: u8 },
    Crash { modes: Vec<(u8, CrashMode)> },
    Corrupt { blob: u8, c: Corrupt },
    Get { blob: u8, api: Api, stream: bool, rplan: Vec<ReadStep>, tail: u32, overwrite_hex: Option<String> },
}

#[derive(Serialize, Deserialize, Clone, Debug)]
struct Session {
    scenario: String,
    decl: String,
    shape: ShapeId,
    fmt: Format,
    ops: Vec<Op>,
}

#[derive(Serialize, Deserialize, Clone, Debug)]
struct ByzPlan {
    scenario: String,
    decl: String,
    shape: ShapeId,
    toks: Vec<Tok>,
    byz: Byz,
    fail_at: Option<usize>,
    via_t: bool,
}

// ------------------------------------------------------------------------------------ doc generation

fn gen_raw_doc<D: Decl>(rng: &mut Rng, shape: ShapeId, core: bool, fmt: Format, valid_only: bool) -> Option<Vec<u8>> {
    for _ in 0..6 {
        let aux = Aux::draw(rng);
        let k = arity(shape, &aux);
        let raws: Vec<D::TwinInner> = (0..k).map(|_| D::gen(rng)).collect();
        match build_doc::<D>(shape, core, fmt, &aux, raws, valid_only) {
            Ok(b) => return Some(b),
            Err(_) if valid_only => continue,
            Err(_) => return None,
        }
    }
    None
}

fn gen_corruption(rng: &mut Rng) -> Corrupt {
    match rng.below(7) {
        0 => Corrupt::BitFlip { at: rng.next_u32(), bit: rng.below(8) as u8 },
        1 => Corrupt::ByteDrop { at: rng.next_u32() },
        2 => Corrupt::ByteDup { at: rng.next_u32() },
        3 => Corrupt::Truncate { len: rng.next_u32() },
        4 => Corrupt::GarbageTail { seed: rng.next_u32(), len: rng.range(1, 6) as u8 },
        5 => Corrupt::ZeroFill { at: rng.next_u32(), len: rng.range(1, 4) as u8 },
        _ => Corrupt::ByteSet { at: rng.next_u32(), val: *rng.pick(&[b'"', b'-', b'0', b'9', b',', b']', b')', b' ', 0xff, 0xc0, 0xa1, 0x91]) },
    }
}

fn gen_doc<D: Decl>(rng: &mut Rng, shape: ShapeId, core: bool, fmt: Format, stream: bool) -> (&'static str, Vec<u8>) {
    if stream {
        let n = rng.range_usize(1, 4);
        let mut out = Vec::new();
        for i in 0..n {
            if i > 0 {
                out.extend(rng.pick(&[" ", "\n", "", ",", "\t "]).as_bytes());
            }
            let (_, d) = gen_doc::<D>(rng, ShapeId::Bare, core, Format::Json, false);
            out.extend(d);
        }
        return ("stream", out);
    }
    let hand_ok = matches!(shape, ShapeId::Bare | ShapeId::VecOf | ShapeId::RecOf | ShapeId::OptionOf)
        || (fmt.base() == Format::Json && matches!(shape, ShapeId::MapKey | ShapeId::MapVal));
    let kind = rng.weighted(&[25, 45, if hand_ok { 15 } else { 0 }, 15]);
    match kind {
        0 => {
            if let Some(b) = gen_raw_doc::<D>(rng, shape, core, fmt, true) {
                return ("valid_via_T_serialize", b);
            }
        }
        2 => return ("handcrafted", handcrafted::handcrafted(rng, fmt, shape, D::NAME)),
        3 => {
            if let Some(mut b) = gen_raw_doc::<D>(rng, shape, core, fmt, false) {
                for _ in 0..rng.range_usize(1, 3) {
                    apply_corrupt(&mut b, gen_corruption(rng));
                }
                return ("mutated", b);
            }
        }
        _ => {}
    }
    match gen_raw_doc::<D>(rng, shape, core, fmt, false) {
        Some(b) => ("raw_via_twin", b),
        None => ("handcrafted", handcrafted::handcrafted(rng, fmt, ShapeId::Bare, D::NAME)),
    }
}

fn gen_rplan(rng: &mut Rng, doc_len: usize, allow_malign: bool) -> (Vec<ReadStep>, u32) {
    match rng.below(10) {
        0 | 1 | 2 => (vec![], 0),
        3 | 4 => (vec![], *rng.pick(&[1u32, 1, 2, 3, 7])),
        5 | 6 => {
            // benign mix
            let n = rng.range_usize(1, 12);
            let plan = (0..n)
                .map(|_| if rng.chance(1, 3) { ReadStep::Eintr } else { ReadStep::Deliver(rng.range(1, 9) as u32) })
                .collect();
            (plan, *rng.pick(&[0u32, 1, 4]))
        }
        _ => {
            if !allow_malign {
                return (vec![], 1);
            }
            // one malign fault placed inside the document
            let chunk = *rng.pick(&[1u32, 2, 3, 5]);
            let calls = (doc_len as u32 / chunk).max(1);
            let at = rng.below(calls as u64 + 2) as usize;
            let mut plan: Vec<ReadStep> = (0..at).map(|_| ReadStep::Deliver(chunk)).collect();
            if rng.chance(1, 5) {
                plan.insert(rng.usize_below(plan.len() + 1), ReadStep::Eintr);
            }
            plan.push(if rng.chance(1, 3) { ReadStep::Eof } else { ReadStep::Fail(*rng.pick(&IoErr::ALL)) });
            (plan, chunk)
        }
    }
}

fn gen_wplan(rng: &mut Rng, doc_len: usize) -> (Vec<WriteStep>, u32) {
    match rng.below(10) {
        0..=4 => (vec![], 0),
        5 | 6 => (vec![], *rng.pick(&[1u32, 2, 5])),
        7 => {
            let n = rng.range_usize(1, 8);
            ((0..n).map(|_| if rng.chance(1, 3) { WriteStep::Eintr } else { WriteStep::Accept(rng.range(1, 6) as u32) }).collect(), 0)
        }
        _ => {
            let chunk = *rng.pick(&[1u32, 3, 8]);
            let at = rng.below((doc_len as u64 / chunk as u64).max(1) + 1) as usize;
            let mut plan: Vec<WriteStep> = (0..at).map(|_| WriteStep::Accept(chunk)).collect();
            plan.push(if rng.chance(1, 3) { WriteStep::Zero } else { WriteStep::Fail(*rng.pick(&IoErr::ALL)) });
            (plan, chunk)
        }
    }
}

struct BuildSession<'a> {
    rng: &'a mut Rng,
}

impl<'a> DeclVisitor for BuildSession<'a> {
    type Out = Session;
    fn visit<D: Decl>(self, core: bool) -> Session {
        let rng = self.rng;
        let _ = core;
        let shape = *rng.pick(<D::Shapes as simcore::shapes::ShapeSet>::LIST);
        let fmt = *rng.pick(&Format::ALL);
        let stream = fmt.base() == Format::Json && shape == ShapeId::Bare && rng.chance(1, 5);
        let mut ops = Vec::new();
        let mut lens: BTreeMap<u8, usize> = BTreeMap::new();
        let n_ops = rng.range_usize(1, 7);
        // Swarm: every session draws its own mix of operation kinds (some sessions never crash,
        // some never corrupt, some are put/get only), so no single mix is baked into the search.
        let mut mix = [35u32, 12, 8, 15, 30];
        for (k, m) in mix.iter_mut().enumerate() {
            if k != 0 && k != 4 {
                *m *= *rng.pick(&[0u32, 1, 1, 3]);
            }
        }
        for i in 0..n_ops {
            let have = !lens.is_empty();
            let w = if !have { [100, 0, 0, 0, 0] } else { mix };
            let last = i + 1 == n_ops;
            let choice = if last && have { 4 } else { rng.weighted(&w) };
            match choice {
                0 => {
                    let blob = rng.below(2) as u8;
                    let (kind, bytes) = gen_doc::<D>(rng, shape, core, fmt, stream);
                    let (wplan, tail) = gen_wplan(rng, bytes.len());
                    lens.insert(blob, bytes.len());
                    ops.push(Op::Put { blob, kind: kind.to_string(), bytes_hex: hex(&bytes), wplan, tail });
                    if rng.chance(3, 5) {
                        ops.push(Op::Sync { blob });
                    }
                }
                1 => ops.push(Op::Sync { blob: *rng.pick(&lens.keys().copied().collect::<Vec<_>>()) }),
                2 => {
                    let modes = lens
                        .iter()
                        .map(|(b, l)| {
                            let m = match rng.below(3) {
                                0 => CrashMode::LoseUnsynced,
                                1 => CrashMode::TornPrefix(rng.below(*l as u64 + 1) as u32),
                                _ => CrashMode::TornInPlace(rng.below(*l as u64 + 1) as u32),
                            };
                            (*b, m)
                        })
                        .collect();
                    ops.push(Op::Crash { modes });
                }
                3 => ops.push(Op::Corrupt { blob: *rng.pick(&lens.keys().copied().collect::<Vec<_>>()), c: gen_corruption(rng) }),
                _ => {
                    let blob = *rng.pick(&lens.keys().copied().collect::<Vec<_>>());
                    let len = lens[&blob];
                    let api = if stream { Api::Reader } else { *rng.pick(&[Api::Reader, Api::Reader, Api::Reader, Api::Slice, Api::Str, Api::Value, Api::InPlace]) };
                    let (mut rplan, tail) = gen_rplan(rng, len, true);
                    let overwrite_hex = if rng.chance(1, 8) {
                        let (_, nb) = gen_doc::<D>(rng, shape, core, fmt, stream);
                        // interleave Advance steps
                        let n = rng.range_usize(1, 6);
                        for _ in 0..n {
                            let at = rng.usize_below(rplan.len() + 1);
                            rplan.insert(at, ReadStep::Advance(rng.range(1, nb.len().max(1) as u64) as u32));
                        }
                        Some(hex(&nb))
                    } else {
                        None
                    };
                    ops.push(Op::Get { blob, api, stream, rplan, tail, overwrite_hex });
                }
            }
        }
        if !ops.iter().any(|o| matches!(o, Op::Get { .. })) {
            let blob = *lens.keys().next().unwrap();
            let (rplan, tail) = gen_rplan(rng, lens[&blob], true);
            ops.push(Op::Get { blob, api: Api::Reader, stream, rplan, tail, overwrite_hex: None });
        }
        Session { scenario: "session".into(), decl: D::NAME.to_string(), shape, fmt, ops }
    }
}

// ------------------------------------------------------------------------------------ execution

#[derive(Default)]
struct ExecOut {
    gets: usize,
    steps: u64,
    log: Fnv,
    fired: BTreeMap<&'static str, u64>,
    probes: BTreeMap<&'static str, u64>,
    classes: BTreeMap<&'static str, u64>,
    distinct: Vec<u64>,
    /// (op index, invariant, detail)
    violations: Vec<(usize, String, String)>,
}

impl ExecOut {
    fn fire(&mut self, k: &'static str, n: u64) {
        if n > 0 {
            *self.fired.entry(k).or_insert(0) += n;
        }
    }
    fn probe(&mut self, k: &'static str) {
        *self.probes.entry(k).or_insert(0) += 1;
    }
}

fn fault_mask(r: &GetResult, tainted: bool, overwrite: bool) -> u64 {
    let l = &r.log_a;
    (l.short_reads > 0) as u64
        | ((l.eintr > 0) as u64) << 1
        | ((l.hard_errors > 0) as u64) << 2
        | ((l.early_eof > 0) as u64) << 3
        | ((l.overwrite_bytes > 0) as u64) << 4
        | (tainted as u64) << 5
        | (overwrite as u64) << 6
}

fn record_get(out: &mut ExecOut, decl: &str, shape: ShapeId, fmt: Format, api: Api, stream: bool, r: &GetResult, tainted: bool, overwrite: bool, op_index: usize) {
    out.gets += 1;
    out.steps += r.log_a.calls + r.log_b.calls;
    out.fire("fault.short_read", r.log_a.short_reads);
    out.fire("fault.eintr", r.log_a.eintr);
    out.fire("fault.io_error", r.log_a.hard_errors);
    out.fire("fault.early_eof", r.log_a.early_eof);
    out.fire("fault.read_during_overwrite", r.log_a.overwrite_advances);
    let class = r.class();
    *out.classes.entry(class).or_insert(0) += 1;
    if class == "rejected_by_validation" && api == Api::Reader {
        out.probe("probe.validation_error_seen_through_reader");
    }
    if r.log_a.hard_errors > 0 || r.log_a.early_eof > 0 {
        out.probe("probe.io_fault_hit_inside_deserialize");
    }
    if (r.log_b.hard_errors + r.log_b.early_eof > 0) && (r.log_a.hard_errors + r.log_a.early_eof == 0) {
        out.probe("probe.fault_only_twin_reached_after_validation_abort");
    }
    if tainted && r.a.is_ok() {
        out.probe("probe.torn_or_corrupt_doc_parsed_as_valid_value");
    }
    if class == "rejected_by_validation" && r.unread_a > r.unread_b {
        out.probe("probe.nested_abort_left_unread_bytes");
    }
    if r.log_a.eintr > 0 && r.a.is_ok() {
        out.probe("probe.eintr_retried_then_ok");
    }
    if r.twin_panicked {
        out.probe("probe.format_library_panicked_under_the_twin_no_verdict");
    }
    if r.used_fallthrough {
        out.probe("probe.untagged_fallthrough_modelled");
    }
    if r.log_a.overwrite_bytes > 0 {
        out.probe("probe.read_saw_concurrent_overwrite");
    }
    if let Some((inv, detail)) = r.violation() {
        out.violations.push((op_index, inv.to_string(), detail));
    }
    let mask = fault_mask(r, tainted, overwrite);
    out.log.str(class);
    out.log.str(r.a.class());
    out.log.u64(mask);
    out.log.u64(r.log_a.calls);
    out.log.u64(r.log_a.bytes);
    if let Side::Ok(v, aux) = &r.a {
        for x in v {
            out.log.str(x);
        }
        out.log.str(aux);
    }
    let adversarial = tainted || overwrite || class != "accepted";
    if mask != 0 || adversarial {
        let mut h = Fnv::default();
        h.str(decl);
        h.str(fmt.name());
        h.str(shape.name());
        h.u64(api as u64);
        h.u64(stream as u64);
        h.u64(mask);
        h.str(class);
        out.distinct.push(h.0);
    }
}

struct ExecSession<'a> {
    s: &'a Session,
}

impl<'a> DeclVisitor for ExecSession<'a> {
    type Out = ExecOut;
    fn visit<D: Decl>(self, core: bool) -> ExecOut {
        let s = self.s;
        let mut out = ExecOut::default();
        let mut disk = SimDisk::default();
        out.log.str(&s.decl);
        for (i, op) in s.ops.iter().enumerate() {
            match op {
                Op::Put { blob, bytes_hex, wplan, tail, .. } => {
                    let bytes = unhex(bytes_hex);
                    let (ack, wl) = disk.put(*blob, &bytes, wplan, *tail);
                    out.steps += wl.calls;
                    out.fire("fault.short_write", wl.short_writes);
                    out.fire("fault.write_eintr", wl.eintr);
                    out.fire("fault.write_io_error", wl.hard_errors);
                    out.fire("fault.disk_full", wl.zero_writes);
                    out.log.u64(ack as u64);
                    out.log.u64(wl.bytes);
                }
                Op::Sync { blob } => disk.sync(*blob),
                Op::Crash { modes } => {
                    let m: BTreeMap<u8, CrashMode> = modes.iter().cloned().collect();
                    let pending: Vec<u8> = disk.blobs.iter().filter(|(_, b)| b.pending.is_some()).map(|(k, _)| *k).collect();
                    let lost = disk.crash(&m);
                    for b in pending {
                        match m.get(&b) {
                            Some(CrashMode::TornPrefix(_)) | Some(CrashMode::TornInPlace(_)) => out.fire("fault.torn_write", 1),
                            _ => out.fire("fault.lost_unsynced_write", 1),
                        }
                    }
                    out.fire("fault.crash_with_unsynced_data", (lost > 0) as u64);
                    out.log.u64(lost);
                }
                Op::Corrupt { blob, c } => {
                    if disk.corrupt(*blob, *c) {
                        let k = match c {
                            Corrupt::BitFlip { .. } => "fault.bit_flip",
                            Corrupt::ByteDrop { .. } => "fault.byte_drop",
                            Corrupt::ByteDup { .. } => "fault.byte_dup",
                            Corrupt::Truncate { .. } => "fault.truncate",
                            Corrupt::GarbageTail { .. } => "fault.garbage_tail",
                            Corrupt::ZeroFill { .. } => "fault.zero_fill",
                            Corrupt::ByteSet { .. } => "fault.byte_set",
                        };
                        out.fire(k, 1);
                    }
                }
                Op::Get { blob, api, stream, rplan, tail, overwrite_hex } => {
                    let content = disk.visible(*blob);
                    let tainted = disk.blobs.get(blob).map(|b| b.tainted).unwrap_or(false);
                    let mut rdr = SimReader::with_plan(content.clone(), rplan.clone(), *tail);
                    if let Some(h) = overwrite_hex {
                        rdr.overwrite = Some((unhex(h), 0));
                    }
                    let run = |r: &SimReader| -> GetResult {
                        if *stream {
                            diff_stream::<D>(r)
                        } else {
                            diff_get::<D>(s.shape, core, s.fmt, *api, r)
                        }
                    };
                    let res = run(&rdr);
                    record_get(&mut out, &s.decl, s.shape, s.fmt, *api, *stream, &res, tainted, overwrite_hex.is_some(), i);
                    // deserialize_in_place over a host that already holds valid values
                    if *api == Api::InPlace && !*stream {
                        let ip = diff_in_place::<D>(s.shape, s.fmt, &rdr, !cat_c04::NOT_IDEMPOTENT.contains(&D::NAME));
                        if ip.ran {
                            out.probe("probe.deserialize_in_place_compared");
                            if !ip.a.is_ok() {
                                out.probe("probe.deserialize_in_place_failed_place_inspected");
                            }
                            for (inv, d) in ip.violations {
                                out.violations.push((i, inv.to_string(), d));
                            }
                        }
                    }
                    // Deserialization is a function of the document: the same read again (same
                    // store state, same read plan) must give the same result, whatever else
                    // this or any other thread deserialized in between (no hidden state).
                    if (i + s.ops.len()) % 3 == 0 {
                        let again = run(&rdr);
                        out.probe("probe.repeat_read_compared");
                        if again.a != res.a {
                            out.violations.push((
                                i,
                                "same_document_same_result".into(),
                                format!("first read gave {:?}, an identical second read gave {:?}", res.a, again.a),
                            ));
                        }
                    }
                    // Benign-fault invisibility: short reads and EINTR must not change the result.
                    let benign_only = overwrite_hex.is_none() && rplan.iter().all(|st| st.benign());
                    if benign_only && (!rplan.is_empty() || *tail > 0) {
                        let whole = run(&SimReader::whole(content));
                        out.probe("probe.benign_invisibility_checked");
                        if whole.a != res.a {
                            out.violations.push((
                                i,
                                "benign_faults_invisible".into(),
                                format!("with short reads/EINTR only the result is {:?}, with one whole read it is {:?}", res.a, whole.a),
                            ));
                        }
                    }
                }
            }
        }
        out
    }
}

fn merge_out(st: &mut Stats, out: &ExecOut) {
    st.steps += out.steps;
    for (k, v) in &out.fired {
        st.add(k, *v);
    }
    for (k, v) in &out.probes {
        st.add(k, *v);
    }
    for (k, v) in &out.classes {
        st.inc_dyn(&format!("outcome.{k}"));
        if *v > 1 {
            *st.dyn_counters.get_mut(&format!("outcome.{k}")).unwrap() += *v - 1;
        }
    }
    st.distinct.extend(&out.distinct);
}

fn session_violation(s: &Session, run_index: u64, op_index: usize, inv: &str, detail: &str) -> Violation {
    Violation {
        run_index,
        scenario: "S-DESER/session",
        decl: s.decl.clone(),
        invariant: inv.to_string(),
        signature: format!("{}:{}:{}", inv, s.fmt.name(), s.shape.name()),
        detail: format!("at op #{op_index}: {detail}"),
        plan: serde_json::to_value(s).unwrap(),
    }
}

fn run_session(seed: u64, run_index: u64, st: &mut Stats, ctx: &WorkerCtx) {
    let mut rng = Rng::for_run(seed, SC_SESSION, run_index);
    let idx = (run_index % n_decls() as u64) as usize;
    let session = with_decl(idx, BuildSession { rng: &mut rng });
    let out = ctx.guarded(|| serde_json::to_value(&session).unwrap(), || with_decl(idx, ExecSession { s: &session }));
    st.evaluations += out.gets as u64;
    st.inc("sessions");
    merge_out(st, &out);
    for (i, inv, detail) in &out.violations {
        st.violation(session_violation(&session, run_index, *i, inv, detail));
    }
    st.histories.push(out.log.0);
    if st.keep_trace {
        st.trace.push((run_index, out.log.0, (!out.violations.is_empty()) as u8));
    }
    st.sample(run_index, || {
        let mut v = serde_json::to_value(&session).unwrap();
        v["run_index"] = json!(run_index);
        v
    });
}

// ------------------------------------------------------------------------------------ enumeration

struct EnumDecl;

struct EnumOut {
    st: Stats,
}

fn enum_docs<D: Decl>(core: bool) -> Vec<(ShapeId, Format, Vec<u8>, String)> {
    let corpus = D::corpus();
    let aux = Aux::fixed();
    let mut docs = Vec::new();
    for fmt in Format::BASE {
        for v in &corpus {
            for shape in [ShapeId::Bare, ShapeId::RecOf] {
                if !<D::Shapes as simcore::shapes::ShapeSet>::LIST.contains(&shape) {
                    continue;
                }
                if let Ok(b) = build_doc::<D>(shape, core, fmt, &aux, vec![v.clone()], false) {
                    docs.push((shape, fmt, b, format!("{v:?}")));
                }
            }
        }
        // Vec of 3: every window of the corpus (valid/invalid mixes, first-invalid at each index).
        for w in 0..corpus.len() {
            let raws: Vec<D::TwinInner> = (0..3).map(|k| corpus[(w + k) % corpus.len()].clone()).collect();
            let label = format!("{raws:?}");
            if let Ok(b) = build_doc::<D>(ShapeId::VecOf, core, fmt, &aux, raws, false) {
                docs.push((ShapeId::VecOf, fmt, b, label));
            }
        }
    }
    docs.retain(|d| d.2.len() <= 96);
    docs
}

impl DeclVisitor for EnumDecl {
    type Out = EnumOut;
    fn visit<D: Decl>(self, core: bool) -> EnumOut {
        let mut st = Stats::default();
        let docs = enum_docs::<D>(core);
        let eval = |st: &mut Stats, shape: ShapeId, fmt: Format, api: Api, rdr: SimReader, kind: &'static str, label: &str, tainted: bool| {
            let r = diff_get::<D>(shape, core, fmt, api, &rdr);
            let mut out = ExecOut::default();
            record_get(&mut out, D::NAME, shape, fmt, api, false, &r, tainted, false, 0);
            st.evaluations += 1;
            st.inc(kind);
            merge_out(st, &out);
            for (_, inv, detail) in &out.violations {
                let plan = json!({"scenario": "enum", "decl": D::NAME, "shape": shape, "fmt": fmt, "api": api,
                    "content_hex": hex(&rdr.data), "rplan": rdr.plan, "tail": rdr.tail_chunk, "inner": label, "fault": kind});
                st.violation(Violation {
                    run_index: u64::MAX - 1,
                    scenario: "S-DESER/enum",
                    decl: D::NAME.to_string(),
                    invariant: inv.clone(),
                    signature: format!("{}:{}:{}", inv, fmt.name(), shape.name()),
                    detail: detail.clone(),
                    plan,
                });
            }
            r
        };
        for (shape, fmt, bytes, label) in &docs {
            let (shape, fmt) = (*shape, *fmt);
            st.inc("enum_documents");
            // fault-free baselines over every API
            let base = eval(&mut st, shape, fmt, Api::Reader, SimReader::whole(bytes.clone()), "enum.whole_read", label, false);
            for api in [Api::Slice, Api::Str, Api::Value] {
                let r = eval(&mut st, shape, fmt, api, SimReader::whole(bytes.clone()), "enum.whole_read", label, false);
                if r.a.is_ok() != base.a.is_ok() && !(fmt.base() == Format::Msgpack) {
                    // from_slice vs from_reader may legitimately differ only for zero-copy types; none here.
                }
            }
            // benign chunkings must be invisible
            for chunk in [1u32, 2, 3] {
                let r = eval(&mut st, shape, fmt, Api::Reader, SimReader::with_plan(bytes.clone(), vec![], chunk), "enum.chunked_read", label, false);
                if r.a != base.a {
                    st.violation(Violation {
                        run_index: u64::MAX - 1,
                        scenario: "S-DESER/enum",
                        decl: D::NAME.to_string(),
                        invariant: "benign_faults_invisible".into(),
                        signature: format!("benign_faults_invisible:{}:{}", fmt.name(), shape.name()),
                        detail: format!("chunk size {chunk} gives {:?}, whole read gives {:?}", r.a, base.a),
                        plan: json!({"scenario": "enum", "decl": D::NAME, "shape": shape, "fmt": fmt, "api": Api::Reader,
                            "content_hex": hex(bytes), "rplan": [], "tail": chunk, "inner": label, "fault": "enum.chunked_read"}),
                    });
                }
            }
            // EINTR before every read call (chunk 1)
            for at in 0..=bytes.len() {
                let mut plan: Vec<ReadStep> = (0..at).map(|_| ReadStep::Deliver(1)).collect();
                plan.push(ReadStep::Eintr);
                eval(&mut st, shape, fmt, Api::Reader, SimReader::with_plan(bytes.clone(), plan, 1), "enum.eintr_at_every_call", label, false);
            }
            // every truncation
            for cut in 0..bytes.len() {
                eval(&mut st, shape, fmt, Api::Reader, SimReader::whole(bytes[..cut].to_vec()), "enum.every_cut_point", label, true);
            }
            // every single bit flip
            for i in 0..bytes.len() {
                for bit in 0..8 {
                    let mut b = bytes.clone();
                    b[i] ^= 1 << bit;
                    eval(&mut st, shape, fmt, Api::Reader, SimReader::whole(b), "enum.every_bit_flip", label, true);
                }
            }
            // hard error at every read-call index, chunk sizes 1 / 3 / whole
            for chunk in [1u32, 3, 0] {
                let calls = if chunk == 0 { 1 } else { bytes.len() / chunk as usize + 1 };
                for at in 0..=calls {
                    let mut plan: Vec<ReadStep> = (0..at).map(|_| ReadStep::Deliver(if chunk == 0 { u32::MAX } else { chunk })).collect();
                    plan.push(ReadStep::Fail(IoErr::Other));
                    eval(&mut st, shape, fmt, Api::Reader, SimReader::with_plan(bytes.clone(), plan, chunk), "enum.io_error_at_every_call", label, false);
                }
            }
        }
        st.compact();
        EnumOut { st }
    }
}

// ------------------------------------------------------------------------------------ byzantine

struct BuildByz<'a> {
    rng: &'a mut Rng,
}

impl<'a> DeclVisitor for BuildByz<'a> {
    type Out = Option<ByzPlan>;
    fn visit<D: Decl>(self, core: bool) -> Option<ByzPlan> {
        let rng = self.rng;
        let _ = core;
        let shape = *rng.pick(<D::Shapes as simcore::shapes::ShapeSet>::LIST);
        // serde's flatten/untagged/tagged hosts buffer into `Content`, which is not self-describing
        // enough for every token kind; they are covered by the real formats.
        let shape = match shape {
            ShapeId::Flat | ShapeId::ITag | ShapeId::Untagged => ShapeId::TwoOf,
            s => s,
        };
        let via_t = rng.chance(1, 4);
        for _ in 0..6 {
            let aux = Aux::draw(rng);
            let k = arity(shape, &aux);
            let raws: Vec<D::TwinInner> = (0..k).map(|_| D::gen(rng)).collect();
            if let Ok(toks) = build_tokens::<D>(shape, core, &aux, raws, via_t) {
                let byz = if rng.chance(1, 4) { Byz::Honest } else { *rng.pick(&Byz::ALL) };
                let fail_at = if rng.chance(1, 3) { Some(rng.usize_below(toks.len() + 2)) } else { None };
                return Some(ByzPlan { scenario: "byz".into(), decl: D::NAME.to_string(), shape, toks, byz, fail_at, via_t });
            }
        }
        None
    }
}

struct ExecByz<'a> {
    p: &'a ByzPlan,
}

struct ByzOut {
    class: &'static str,
    applied: usize,
    injected: bool,
    calls: usize,
    violation: Option<(String, String)>,
    log: u64,
}

impl<'a> DeclVisitor for ExecByz<'a> {
    type Out = ByzOut;
    fn visit<D: Decl>(self, core: bool) -> ByzOut {
        let p = self.p;
        let r = diff_tokens::<D>(p.shape, core, &p.toks, p.byz, p.fail_at);
        let honest_mode = matches!(p.byz, Byz::Honest | Byz::HonestWiden);
        let mut violation = None;
        if let Side::Panic(m) = &r.a {
            violation = Some(("deserialize_does_not_panic".to_string(), format!("Deserialize panicked under SimFormat {:?}: {m}", p.byz)));
        } else if honest_mode {
            // A well-behaved peer (possibly failing at call k): exact differential.
            let exp = &r.expected_same;
            let bad = match (&r.a, exp) {
                (Side::Ok(a, x), Side::Ok(b, y)) => a != b || x != y,
                (Side::Err(_), Side::Err(_)) => false,
                (Side::Ok(..), Side::Err(_)) | (Side::Err(_), Side::Ok(..)) => true,
                _ => false,
            };
            if bad {
                violation = Some((
                    "simformat_differential".to_string(),
                    format!("honest SimFormat peer (fail_at {:?}): deserialize gave {:?}, twin + constructor give {:?}", p.fail_at, r.a, exp),
                ));
            }
        } else if let Side::Ok(av, aa) = &r.a {
            // Byzantine peer: failing is always safe; succeeding is only allowed with exactly the
            // value the constructor makes of what the document carries.
            match &r.expected_honest {
                Side::Ok(ev, ea) if ev == av && ea == aa => {}
                other => {
                    violation = Some((
                        "byzantine_visit_cannot_bypass_constructor".to_string(),
                        format!("peer drove the visitor via {:?} and got Ok({av:?}); the carried value through the constructor is {other:?}", p.byz),
                    ));
                }
            }
        }
        let honest_mode = honest_mode || r.byz_applied == 0;
        let class = match (&r.a, honest_mode) {
            (Side::Ok(..), true) => "honest_accepted",
            (Side::Err(_), true) => "honest_rejected",
            (Side::Ok(..), false) => "byzantine_accepted_equal_to_constructor",
            (Side::Err(_), false) => "byzantine_rejected",
            (Side::Panic(_), _) => "panic",
        };
        let mut log = Fnv::default();
        log.str(&p.decl);
        log.str(class);
        log.u64(r.calls as u64);
        if let Side::Ok(v, aux) = &r.a {
            for x in v {
                log.str(x);
            }
            log.str(aux);
        }
        ByzOut { class, applied: r.byz_applied, injected: r.injected, calls: r.calls, violation, log: log.0 }
    }
}

fn run_byz(seed: u64, run_index: u64, st: &mut Stats, ctx: &WorkerCtx) {
    let mut rng = Rng::for_run(seed, SC_BYZ, run_index);
    let idx = (run_index % n_decls() as u64) as usize;
    let Some(plan) = with_decl(idx, BuildByz { rng: &mut rng }) else {
        st.inc("byz_plan_not_buildable");
        return;
    };
    let out = ctx.guarded(|| serde_json::to_value(&plan).unwrap(), || with_decl(idx, ExecByz { p: &plan }));
    st.evaluations += 1;
    st.steps += out.calls as u64;
    st.inc("byz_runs");
    st.inc_dyn(&format!("outcome.{}", out.class));
    if out.applied > 0 {
        st.add("fault.byzantine_visit", out.applied as u64);
        st.inc_dyn(&format!("fault.byzantine_visit.{:?}", plan.byz));
        if out.class == "byzantine_rejected" {
            st.inc("probe.byzantine_visit_rejected");
        }
    }
    if out.injected {
        st.inc("fault.format_error");
    }
    if let Some((inv, detail)) = &out.violation {
        st.violation(Violation {
            run_index,
            scenario: "S-DESER/byz",
            decl: plan.decl.clone(),
            invariant: inv.clone(),
            signature: format!("{}:{:?}:{}", inv, plan.byz, plan.shape.name()),
            detail: detail.clone(),
            plan: serde_json::to_value(&plan).unwrap(),
        });
    }
    let mut h = Fnv::default();
    h.str(&plan.decl);
    h.str(plan.shape.name());
    h.u64(plan.byz as u64);
    h.u64(out.injected as u64);
    h.str(out.class);
    st.distinct.push(h.0);
    st.histories.push(out.log);
    if st.keep_trace {
        st.trace.push((run_index, out.log, out.violation.is_some() as u8));
    }
    st.sample(run_index, || {
        let mut v = serde_json::to_value(&plan).unwrap();
        v["run_index"] = json!(run_index);
        v
    });
}

// ------------------------------------------------------------------------------------ replay / minimise

/// Execute any stored plan; returns the violations (invariant, detail) it produces.
fn exec_plan(plan: &Value) -> Result<Vec<(String, String)>, String> {
    let scenario = plan["scenario"].as_str().unwrap_or("");
    let decl = plan["decl"].as_str().unwrap_or("");
    let idx = decl_index(decl).ok_or_else(|| format!("unknown declaration {decl:?}"))?;
    match scenario {
        "session" => {
            let s: Session = serde_json::from_value(plan.clone()).map_err(|e| e.to_string())?;
            let out = with_decl(idx, ExecSession { s: &s });
            Ok(out.violations.into_iter().map(|(_, i, d)| (i, d)).collect())
        }
        "byz" => {
            let p: ByzPlan = serde_json::from_value(plan.clone()).map_err(|e| e.to_string())?;
            let out = with_decl(idx, ExecByz { p: &p });
            Ok(out.violation.into_iter().collect())
        }
        "enum" => {
            // An enumeration case is a one-get session on raw content.
            let shape: ShapeId = serde_json::from_value(plan["shape"].clone()).map_err(|e| e.to_string())?;
            let fmt: Format = serde_json::from_value(plan["fmt"].clone()).map_err(|e| e.to_string())?;
            let api: Api = serde_json::from_value(plan["api"].clone()).map_err(|e| e.to_string())?;
            let rplan: Vec<ReadStep> = serde_json::from_value(plan["rplan"].clone()).map_err(|e| e.to_string())?;
            let tail = plan["tail"].as_u64().unwrap_or(0) as u32;
            let s = Session {
                scenario: "session".into(),
                decl: decl.to_string(),
                shape,
                fmt,
                ops: vec![
                    Op::Put { blob: 0, kind: "enum".into(), bytes_hex: plan["content_hex"].as_str().unwrap_or("").to_string(), wplan: vec![], tail: 0 },
                    Op::Get { blob: 0, api, stream: false, rplan, tail, overwrite_hex: None },
                ],
            };
            let out = with_decl(idx, ExecSession { s: &s });
            Ok(out.violations.into_iter().map(|(_, i, d)| (i, d)).collect())
        }
        "hostile_length" => {
            let shape: ShapeId = serde_json::from_value(plan["shape"].clone()).map_err(|e| e.to_string())?;
            let bytes = unhex(plan["bytes_hex"].as_str().unwrap_or(""));
            Ok(hostile_verdict(idx, shape, &bytes).into_iter().collect())
        }
        other => Err(format!("unknown scenario {other:?}")),
    }
}

fn still_fails(plan: &Value, invariant: &str) -> Option<String> {
    match exec_plan(plan) {
        Ok(vs) => vs.into_iter().find(|(i, _)| i == invariant).map(|(_, d)| d),
        Err(_) => None,
    }
}

fn minimise(v: &Violation) -> Violation {
    let mut best = v.plan.clone();
    let mut detail = v.detail.clone();
    let scenario = best["scenario"].as_str().unwrap_or("").to_string();
    if scenario == "session" {
        let mut s: Session = match serde_json::from_value(best.clone()) {
            Ok(s) => s,
            Err(_) => return v.clone(),
        };
        // 1. drop ops one at a time (from the end backwards), keep if the same invariant still fails
        let mut i = s.ops.len();
        while i > 0 {
            i -= 1;
            let mut t = s.clone();
            t.ops.remove(i);
            let tv = serde_json::to_value(&t).unwrap();
            if let Some(d) = still_fails(&tv, &v.invariant) {
                s = t;
                detail = d;
            }
        }
        // 2. simplify each remaining op
        for i in 0..s.ops.len() {
            let mut cands: Vec<Op> = Vec::new();
            match &s.ops[i] {
                Op::Put { blob, kind, bytes_hex, .. } => {
                    cands.push(Op::Put { blob: *blob, kind: kind.clone(), bytes_hex: bytes_hex.clone(), wplan: vec![], tail: 0 });
                }
                Op::Get { blob, api, stream, rplan, tail, overwrite_hex } => {
                    cands.push(Op::Get { blob: *blob, api: *api, stream: *stream, rplan: vec![], tail: 0, overwrite_hex: None });
                    cands.push(Op::Get { blob: *blob, api: *api, stream: *stream, rplan: rplan.clone(), tail: *tail, overwrite_hex: None });
                    cands.push(Op::Get { blob: *blob, api: *api, stream: *stream, rplan: vec![], tail: *tail, overwrite_hex: overwrite_hex.clone() });
                    let _ = rplan;
                }
                _ => {}
            }
            for c in cands {
                let mut t = s.clone();
                t.ops[i] = c;
                let tv = serde_json::to_value(&t).unwrap();
                if let Some(d) = still_fails(&tv, &v.invariant) {
                    s = t;
                    detail = d;
                    break;
                }
            }
        }
        // 3. shrink document bytes of the (single) remaining put: drop bytes from the end / middle
        for i in 0..s.ops.len() {
            if let Op::Put { blob, kind, bytes_hex, wplan, tail } = s.ops[i].clone() {
                let mut bytes = unhex(&bytes_hex);
                let mut changed = true;
                let mut rounds = 0;
                while changed && rounds < 4 && bytes.len() <= 256 {
                    changed = false;
                    rounds += 1;
                    let mut j = 0;
                    while j < bytes.len() {
                        let mut b2 = bytes.clone();
                        b2.remove(j);
                        let mut t = s.clone();
                        t.ops[i] = Op::Put { blob, kind: kind.clone(), bytes_hex: hex(&b2), wplan: wplan.clone(), tail };
                        let tv = serde_json::to_value(&t).unwrap();
                        if let Some(d) = still_fails(&tv, &v.invariant) {
                            bytes = b2;
                            s = t;
                            detail = d;
                            changed = true;
                        } else {
                            j += 1;
                        }
                    }
                }
            }
        }
        best = serde_json::to_value(&s).unwrap();
    } else if scenario == "byz" {
        if let Ok(mut p) = serde_json::from_value::<ByzPlan>(best.clone()) {
            if p.fail_at.is_some() {
                let mut t = p.clone();
                t.fail_at = None;
                let tv = serde_json::to_value(&t).unwrap();
                if let Some(d) = still_fails(&tv, &v.invariant) {
                    p = t;
                    detail = d;
                }
            }
            best = serde_json::to_value(&p).unwrap();
        }
    }
    Violation { plan: best, detail, ..v.clone() }
}

// ------------------------------------------------------------------------------------ modes

fn hang_exit(cfg: &Config, plan: Value) -> ! {
    let v = Violation {
        run_index: 0,
        scenario: "S-DESER",
        decl: plan["decl"].as_str().unwrap_or("?").to_string(),
        invariant: "terminates".into(),
        signature: "hang".into(),
        detail: format!("a simulated run did not finish within {}s", HANG_LIMIT.as_secs()),
        plan,
    };
    let path = report::write_replay(cfg, &v);
    println!("VIOLATION property={} replay={} decl={} invariant=terminates signature=hang", cfg.property, path.display(), v.decl);
    std::process::exit(report::EXIT_VIOLATION)
}

fn sweep(cfg: &Config, which: u64, n: u64, keep_trace: bool, workers: usize) -> Stats {
    let seed = cfg.seed;
    let cfg2 = cfg.clone();
    runner::run_sharded(
        n,
        workers,
        keep_trace,
        HANG_LIMIT,
        move |plan| hang_exit(&cfg2, plan),
        |i, st, ctx| {
            if which == SC_SESSION {
                run_session(seed, i, st, ctx)
            } else {
                run_byz(seed, i, st, ctx)
            }
        },
    )
}

// ------------------------------------------------------------------------------------ hostile length prefixes

/// MessagePack headers that announce a huge payload which is not there. A correct reader returns
/// an error after allocating little; a reader that trusts the announced length can request an
/// allocation the system refuses, and that ABORTS the process instead of returning an error - which
/// can only be observed from outside, so each read runs in a child process under `ulimit -v`.
const HOSTILE_HEADERS: &[&[u8]] = &[
    &[0xdd, 0xff, 0xff, 0xff, 0xff],
    &[0xdd, 0x7f, 0xff, 0xff, 0xff],
    &[0xdd, 0x10, 0x00, 0x00, 0x00],
    &[0xdf, 0xff, 0xff, 0xff, 0xff],
    &[0xdb, 0xff, 0xff, 0xff, 0xff],
    &[0xc6, 0xff, 0xff, 0xff, 0xff],
    &[0xdc, 0xff, 0xff],
];
const HOSTILE_VM_LIMIT_KB: u64 = 3_000_000;

struct HostileRead<'b> {
    shape: ShapeId,
    bytes: &'b [u8],
    twin: bool,
}
impl<'b> DeclVisitor for HostileRead<'b> {
    type Out = &'static str;
    fn visit<D: Decl>(self, _core: bool) -> &'static str {
        read_one_side::<D>(self.shape, Format::Msgpack, self.bytes, self.twin)
    }
}

fn hostile_doc(shape: ShapeId, header: &[u8]) -> Vec<u8> {
    match shape {
        // a one-element array whose element is the hostile header
        ShapeId::VecOf => {
            let mut v = vec![0x91];
            v.extend_from_slice(header);
            v
        }
        _ => header.to_vec(),
    }
}

/// Exit status of the child: Some(code) if it exited, None if it was killed by a signal.
fn hostile_child(decl_idx: usize, shape: ShapeId, bytes: &[u8], twin: bool) -> Option<i32> {
    let exe = std::env::current_exe().ok()?;
    let cmd = format!(
        "ulimit -v {}; exec \"{}\" hostile {} {} {} {}",
        HOSTILE_VM_LIMIT_KB,
        exe.display(),
        decl_idx,
        shape.name(),
        hex(bytes),
        if twin { "twin" } else { "t" }
    );
    let st = std::process::Command::new("sh").arg("-c").arg(cmd).stdout(std::process::Stdio::null()).stderr(std::process::Stdio::null()).status().ok()?;
    st.code()
}

fn hostile_plan(decl: &str, shape: ShapeId, bytes: &[u8]) -> Value {
    json!({"scenario": "hostile_length", "decl": decl, "shape": shape, "fmt": Format::Msgpack, "bytes_hex": hex(bytes), "vm_limit_kb": HOSTILE_VM_LIMIT_KB})
}

/// (invariant, detail) if the newtype side dies where the twin side returns.
fn hostile_verdict(decl_idx: usize, shape: ShapeId, bytes: &[u8]) -> Option<(String, String)> {
    let t = hostile_child(decl_idx, shape, bytes, false);
    if matches!(t, Some(0)) {
        return None;
    }
    let tw = hostile_child(decl_idx, shape, bytes, true);
    if matches!(tw, Some(0)) {
        let how = match t {
            None => "was killed by a signal (abort)".to_string(),
            Some(c) => format!("exited with status {c}"),
        };
        return Some((
            "deserialize_returns_instead_of_aborting".to_string(),
            format!("reading the MessagePack document {} under a {} KB address-space limit: the newtype side {how}; the serde-derived twin returned normally", hex(bytes), HOSTILE_VM_LIMIT_KB),
        ));
    }
    None
}

fn run_hostile(i: u64, st: &mut Stats, ctx: &WorkerCtx) {
    let n_h = HOSTILE_HEADERS.len() as u64;
    let decl_idx = (i / (2 * n_h)) as usize;
    let shape = if (i / n_h) % 2 == 0 { ShapeId::Bare } else { ShapeId::VecOf };
    let header = HOSTILE_HEADERS[(i % n_h) as usize];
    let bytes = hostile_doc(shape, header);
    let name = decl_name(decl_idx);
    let verdict = ctx.guarded(|| hostile_plan(name, shape, &bytes), || hostile_verdict(decl_idx, shape, &bytes));
    st.evaluations += 1;
    st.inc("fault.hostile_length_prefix_under_address_space_limit");
    if let Some((inv, detail)) = verdict {
        st.violation(Violation {
            run_index: u64::MAX - 5_000_000 - i,
            scenario: "S-DESER",
            decl: name.to_string(),
            invariant: inv.clone(),
            signature: format!("{}:msgpack:{}", inv, shape.name()),
            detail,
            plan: hostile_plan(name, shape, &bytes),
        });
    }
}

fn run_check(cfg: &Config) -> i32 {
    let t0 = Instant::now();
    let mut determinism_diverged = false;
    let (n_sessions, n_byz): (u64, u64) = if cfg.thorough() { (24_000_000, 8_000_000) } else { (1_000_000, 400_000) };

    // 1. single-fault enumeration, sharded by declaration (seed-independent)
    let cfg2 = cfg.clone();
    let mut stats = runner::run_sharded(
        n_decls() as u64,
        cfg.workers,
        false,
        HANG_LIMIT,
        move |plan| hang_exit(&cfg2, plan),
        |i, st, _ctx| {
            let out = with_decl(i as usize, EnumDecl);
            st.merge(out.st);
        },
    );
    let enum_evals = stats.evaluations;
    // 2. seeded sessions, 3. byzantine peer
    let s2 = sweep(cfg, SC_SESSION, n_sessions, false, cfg.workers);
    let session_gets = s2.evaluations;
    stats.merge(s2);
    let s3 = sweep(cfg, SC_BYZ, n_byz, false, cfg.workers);
    stats.merge(s3);
    // 4. hostile length prefixes, each read in a child process under an address-space limit
    let cfg4 = cfg.clone();
    let n_hostile = n_decls() as u64 * 2 * HOSTILE_HEADERS.len() as u64;
    let s4 = runner::run_sharded(n_hostile, cfg.workers, false, HANG_LIMIT, move |plan| hang_exit(&cfg4, plan), |i, st, ctx| run_hostile(i, st, ctx));
    let hostile_reads = s4.evaluations;
    stats.merge(s4);

    // determinism probe
    for which in [SC_SESSION, SC_BYZ] {
        let a = sweep(cfg, which, 1024, true, 3);
        let b = sweep(cfg, which, 1024, true, cfg.workers.max(2));
        if a.trace != b.trace {
            determinism_diverged = true;
        }
    }

    let out = report::settle_violations(cfg, &stats, &minimise);
    if determinism_diverged {
        if out.new_violations == 0 {
            // The simulator is deterministic on the unchanged tree (./check selfcheck); if the same
            // seeds give different event logs at different worker counts, something in the run has
            // state that outlives a run. Without a concrete violation this is reported as a harness
            // error, never as a property violation.
            report::harness_error("determinism probe failed: the same seeds produced different event logs at different worker counts");
        }
        println!("NOTE: the determinism probe also diverged (results depend on which runs shared a worker thread: hidden state that outlives a run)");
    }
    let wall = t0.elapsed().as_secs_f64();
    let must_be_nonzero = [
        "probe.validation_error_seen_through_reader",
        "probe.io_fault_hit_inside_deserialize",
        "probe.fault_only_twin_reached_after_validation_abort",
        "probe.torn_or_corrupt_doc_parsed_as_valid_value",
        "probe.nested_abort_left_unread_bytes",
        "probe.eintr_retried_then_ok",
        "probe.untagged_fallthrough_modelled",
        "probe.read_saw_concurrent_overwrite",
        "probe.byzantine_visit_rejected",
        "probe.benign_invisibility_checked",
        "probe.repeat_read_compared",
        "probe.deserialize_in_place_compared",
        "probe.deserialize_in_place_failed_place_inspected",
        "fault.format_error",
        "fault.torn_write",
        "fault.lost_unsynced_write",
    ];
    let stuck: Vec<&str> = must_be_nonzero.iter().copied().filter(|k| stats.get(k) == 0).collect();
    // (A change that breaks the property can legitimately silence a probe; only a clean run with
    // a silent probe means the workload is wrong.)
    if !stuck.is_empty() && out.new_violations == 0 {
        report::harness_error(&format!("reach probes stuck at zero: {stuck:?}"));
    }
    let mut extra = Map::new();
    extra.insert("declarations".into(), json!((0..n_decls()).map(decl_name).collect::<Vec<_>>()));
    extra.insert("core_declarations_all_16_positions".into(), json!((0..n_decls()).filter(|i| decl_is_core(*i)).map(decl_name).collect::<Vec<_>>()));
    extra.insert("positions".into(), json!(ShapeId::ALL.iter().map(|s| s.name()).collect::<Vec<_>>()));
    extra.insert("formats".into(), json!(["json (serde_json 1.0.117: from_reader/from_slice/from_str/StreamDeserializer)", "ron 0.8.1 (from_reader/from_bytes/from_str)", "messagepack (rmp-serde 1.1.2: from_read/from_slice)", "SimFormat (stub token peer)"]));
    extra.insert("sub_scenarios".into(), json!({"enum_single_fault_evaluations": enum_evals, "session_gets": session_gets, "sessions": n_sessions, "byzantine_runs": n_byz, "hostile_length_reads_in_child_processes": hostile_reads}));
    extra.insert("determinism_probe".into(), json!({"runs_per_scenario": 1024, "worker_counts": [3, cfg.workers.max(2)], "event_logs_identical": true}));
    report::write_evidence(
        cfg,
        &stats,
        &out,
        wall,
        EvidenceExtra {
            level: "fault_enumeration",
            rule: "one evaluation = one differential read: Shape<T> and Shape<Twin> deserialized from identical clones of the same simulated reader/store state under the same read plan, twin elements pushed through the REAL constructor, results compared (plus benign-fault invisibility and, for the SimFormat peer, the byzantine safety rule). (a) enum: for every declaration x {json, ron, msgpack} x {bare, struct field, Vec of 3} x every corpus value (docs <= 96 bytes): whole/chunked reads, EINTR before every read call, EVERY cut point, EVERY single bit flip, a hard error at EVERY read-call index for chunk sizes 1/3/whole - complete over single faults for that corpus, seed-independent; (b) seeded sessions of <= 7 ops (put through a faulty writer / sync / crash with torn or lost unsynced data / corrupt / get under a read plan with short reads, EINTR, hard errors, early EOF, concurrent overwrite) over 16 container positions; (c) SimFormat runs with 9 visitor-driving modes and an error at the k-th deserializer call. Non-trivial = at least one fault fired in flight or the document was adversarial (tainted store, overwrite, or not accepted); distinct = distinct (declaration, format, position, API, set of fault kinds that fired, outcome class) tuples, counted by hashing into a set.".into(),
            assumptions: vec![
                "serde_derive's Deserialize/Serialize for the same-named twin struct is correct (trusted)".into(),
                "serde_json / ron / rmp-serde behave identically for T and its twin up to the visitor call (holds because all three forward deserialize_newtype_struct to visit_newtype_struct(self))".into(),
                "the oracle is the REAL try_new/new: a wrong constructor is property C01's business and does not alarm here".into(),
                "seeded sessions sample; only sub-scenario (a) is complete, and only over its fixed corpus and single faults".into(),
            ],
            real_components: vec!["nutype_macros expansion from /repo (Deserialize visitor, Serialize, try_new/new, sanitizers, validators incl. the shared LazyLock<Regex>)", "serde 1.0.203 (incl. ContentDeserializer for flatten/untagged/tagged hosts)", "serde_json 1.0.117", "ron 0.8.1", "rmp-serde 1.1.2", "regex 1.10.2", "std"],
            stub_components: vec!["SimDisk (durable/pending blobs, crash, corruption)", "SimReader / SimWriter (plan-driven io::Read / io::Write)", "concurrent overwrite (advanced at reader seam calls)", "SimFormat token peer (tracing serializer, byzantine deserializer)"],
            extra,
            exhaustive: false,
        },
    );
    println!(
        "C04 S-DESER: {} evaluations ({} enum, {} session gets in {} sessions, {} byz), {} distinct non-trivial, {} new violation signatures, {:.1}s",
        stats.evaluations, enum_evals, session_gets, n_sessions, n_byz, stats.distinct.len(), out.new_violations, wall
    );
    if out.new_violations > 0 {
        report::EXIT_VIOLATION
    } else {
        report::EXIT_OK
    }
}

fn run_replay(cfg: &Config, path: &str) -> i32 {
    let text = std::fs::read_to_string(path).unwrap_or_else(|e| report::harness_error(&format!("cannot read {path}: {e}")));
    let v: Value = serde_json::from_str(&text).unwrap_or_else(|e| report::harness_error(&format!("bad replay file: {e}")));
    let want = v["invariant"].as_str().unwrap_or("").to_string();
    match exec_plan(&v["plan"]) {
        Err(e) => report::harness_error(&format!("cannot execute stored plan: {e}")),
        Ok(vs) => {
            if let Some((inv, detail)) = vs.iter().find(|(i, _)| *i == want) {
                println!("REPRODUCED property={} decl={} invariant={} detail={}", cfg.property, v["decl"].as_str().unwrap_or("?"), inv, detail.replace('\n', " "));
                report::EXIT_VIOLATION
            } else if let Some((inv, _)) = vs.first() {
                println!("REPLAY-DIVERGED: expected invariant {want}, got {inv}");
                report::EXIT_HARNESS
            } else {
                println!("NOT-REPRODUCED: the stored plan no longer violates C04 on this tree");
                report::EXIT_HARNESS
            }
        }
    }
}

fn main() {
    let args: Vec<String> = std::env::args().skip(1).collect();
    let cfg = Config::from_env(PROPERTY, &args);
    runner::quiet_panics();
    let code = match args.first().map(|s| s.as_str()) {
        Some("replay") => run_replay(&cfg, args.get(1).map(|s| s.as_str()).unwrap_or("")),
        // child mode of the hostile-length sub-scenario: one read, one side, then exit 0
        Some("hostile") => {
            let idx: usize = args.get(1).and_then(|s| s.parse().ok()).unwrap_or(0);
            let shape = if args.get(2).map(|s| s.as_str()) == Some(ShapeId::VecOf.name()) { ShapeId::VecOf } else { ShapeId::Bare };
            let bytes = unhex(args.get(3).map(|s| s.as_str()).unwrap_or(""));
            let twin = args.get(4).map(|s| s.as_str()) == Some("twin");
            let r = with_decl(idx, HostileRead { shape, bytes: &bytes, twin });
            println!("{r}");
            0
        }
        // debug aid: execute one session of the seeded sweep on the main thread, plan printed first
        Some("session") => {
            let i: u64 = args.get(1).and_then(|s| s.parse().ok()).unwrap_or(0);
            // optional: `session <first> <count> <probe>` scans a range and prints the sessions that hit a probe
            if let (Some(n), Some(probe)) = (args.get(2).and_then(|s| s.parse::<u64>().ok()), args.get(3)) {
                for j in i..i + n {
                    let mut rng = Rng::for_run(cfg.seed, SC_SESSION, j);
                    let idx = (j % n_decls() as u64) as usize;
                    let session = with_decl(idx, BuildSession { rng: &mut rng });
                    let out = with_decl(idx, ExecSession { s: &session });
                    if out.probes.keys().any(|p| p.contains(probe.as_str())) {
                        println!("{j} {}", serde_json::to_string(&session).unwrap());
                    }
                }
                std::process::exit(0);
            }
            let mut rng = Rng::for_run(cfg.seed, SC_SESSION, i);
            let idx = (i % n_decls() as u64) as usize;
            let session = with_decl(idx, BuildSession { rng: &mut rng });
            println!("{}", serde_json::to_string(&session).unwrap());
            let out = with_decl(idx, ExecSession { s: &session });
            println!("gets={} violations={:?}", out.gets, out.violations);
            0
        }
        Some("tracehash") => {
            let n: u64 = args.get(1).and_then(|s| s.parse().ok()).unwrap_or(4096);
            let mut h = Fnv::default();
            for which in [SC_SESSION, SC_BYZ] {
                let st = sweep(&cfg, which, n, true, cfg.workers);
                for (i, l, v) in &st.trace {
                    h.u64(*i);
                    h.u64(*l);
                    h.u64(*v as u64);
                }
            }
            println!("TRACEHASH scenario=S-DESER seed={} runs={} hash={:016x}", cfg.seed, n, h.0);
            0
        }
        _ => run_check(&cfg),
    };
    std::process::exit(code);
}

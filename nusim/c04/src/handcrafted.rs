//! Hand-written adversarial documents per format: out-of-range and wrongly-typed literals,
//! escapes, alternative spellings, structural near-misses. `{N}` is replaced by an interesting
//! number, `{NAME}` by the declaration's name.

use simcore::codec::Format;
use simcore::rng::Rng;
use simcore::shapes::ShapeId;

pub const NUMBERS: &[&str] = &[
    "0", "1", "2", "9", "10", "12", "13", "15", "16", "19", "20", "99", "100", "101", "127", "128", "200", "201", "255", "256", "-1", "-128",
    "-129", "65535", "65536", "4294967295", "4294967296", "18446744073709551609", "18446744073709551610", "18446744073709551615",
    "18446744073709551616", "-9223372036854775808", "-9223372036854775809", "1000000000000000000000", "1000000000000000000001",
    "269", "275", "300", "-243", "-237", "65549", "65551", "4294967309", "18446744073709551629", "340282366920938463463374607431768211456",
    "1e39", "-1e39", "3.5e38", "-3.5e38", "3.4028236e38", "1e300", "-1e300", "13.0", "16.5", "1.6e1", "16e0", "1e3", "13.999999999999999", "0.5", "1.0", "1.0000001", "-0.0", "1e400", "-1e400", "1e-400", "5e-324", "1.5", "16.0", "1e1", "0.99999994",
];

const JSON: &[&str] = &[
    "{N}", " {N} ", "\t{N}\n", "[{N}]", "{\"0\":{N}}", "\"{N}\"", "0{N}", "+{N}", "0x10", "1_6", "null", "true", "false", "[]", "[[]]", "{}",
    "\"\"", "\" a \"", "\"\\u00df\"", "\"\\ud800\"", "\"\\ud83d\\ude00\"", "\"a\\u0000b\"", "\"abc-1\"", "\"  ABC-1 \"", "\"AB-12\"",
    "\"\\u0130\"", "\"abba\"", "\"\\u2003x\\u3000\"", "{\"x\":1,\"y\":2}", "{\"y\":2,\"x\":1}", "{\"x\":3,\"y\":2}", "{\"x\":1,\"y\":2,\"z\":3}",
    "{\"x\":1}", "{\"x\":1,\"x\":5,\"y\":2}", "[1,2]", "[{N},\"a\"]", "NaN", "Infinity", "-Infinity", "[\"b\",\"a\"]", "[1]", "[{N}", "{N}]", "{N},",
    "{N} {N}", "\"a", "\u{feff}{N}", "{N}\u{0}", "\"a\"", "\"ß\"",
];

const RON: &[&str] = &[
    "{N}", "({N})", "{NAME}({N})", "Wrong({N})", "{NAME}({N},)", "{NAME}( {N} )", "Some({N})", "#![enable(unwrap_newtypes)] {N}",
    "#![enable(implicit_some)] {N}", "#![enable(implicit_some)] ({N})", "\"abc\"", "(\"abc\")", "(r#\"abc\"#)", "(\" a \")", "(\"\")", "(\"ß\")",
    "(\"abc-1\")", "(\"AB-12\")", "{NAME}(\"abba\")", "0x10", "(0x10)", "(0b10000)", "(1_6)", "('a')", "('ß')", "()", "{NAME}()", "((x:1,y:2))",
    "(Point(x:1,y:2))", "{NAME}((x:3,y:2))", "((y:2,x:1))", "([1,2])", "([])", "(None)", "(Some({N}))", "(true)", "(false)", "(inf)", "(NaN)",
    "(-inf)", "({N}) // c", "/* c */({N})", "(({N}))", "({N}", "{N})", "(({N}, \"a\"))", "{NAME}", "(\"a\\u{0}b\")", "(\"\\u{130}\")",
];

fn msgpack_items(rng: &mut Rng) -> Vec<u8> {
    let n8 = rng.below(256) as u8;
    match rng.below(28) {
        0 => vec![n8 & 0x7f],
        1 => vec![0xcc, n8],
        2 => vec![0xcd, 0, n8],
        3 => vec![0xcd, 1, 0],
        4 => vec![0xce, 0, 0, 0, n8],
        5 => vec![0xcf, 0, 0, 0, 0, 0, 0, 0, n8],
        6 => vec![0xcf, 0xff, 0xff, 0xff, 0xff, 0xff, 0xff, 0xff, 0xff],
        7 => vec![0xd0, n8],
        8 => vec![0xd1, 0xff, n8],
        9 => vec![0xd3, 0x80, 0, 0, 0, 0, 0, 0, 0],
        10 => vec![0xe0 | (n8 & 0x1f)],
        11 => {
            let mut v = vec![0xcb];
            v.extend((n8 as f64 / 8.0).to_be_bytes());
            v
        }
        12 => {
            let mut v = vec![0xca];
            v.extend((n8 as f32 / 255.0).to_be_bytes());
            v
        }
        13 => {
            let mut v = vec![0xcb];
            v.extend(f64::NAN.to_be_bytes());
            v
        }
        14 => {
            let mut v = vec![0xca];
            v.extend(f32::INFINITY.to_be_bytes());
            v
        }
        15 => vec![0xc0],
        16 => vec![0xc3],
        17 => vec![0xc2],
        18 => vec![0xa3, b'a', b'b', b'c'],
        19 => vec![0xd9, 3, b' ', b'a', b' '],
        20 => vec![0xa0],
        21 => vec![0xc4, 1, n8],
        22 => vec![0xd4, 1, n8],
        23 => vec![0x91, n8 & 0x7f],
        24 => vec![0x81, 0xa1, b'0', n8 & 0x7f],
        25 => vec![0xc1],
        26 => vec![0xa1, 0xff],
        _ => vec![0x92, 1, 2],
    }
}

/// JSON object keys (always strings on the wire; the key deserializer parses numbers and bools
/// out of them). serde_json 1.0.117 panics on a key starting with a non-ASCII char where a bool
/// key is expected - for the twin as well, which the differential treats as "no verdict".
const JSON_KEYS: &[&str] = &[
    "\"{N}\"", "\" {N}\"", "\"+{N}\"", "\"\"", "\"true\"", "\"false\"", "\"True\"", "\"tru\"", "\"ß\"", "\"trüe\"", "\"é\"", "\"\\u00df\"",
    "\" a \"", "\"abc-1\"", "\"AB-12\"", "\"abba\"", "\"-0\"", "\"1e3\"", "\"0x10\"", "\"1.0\"", "\"\\u0031\"", "\"null\"",
];

fn subst(t: &str, rng: &mut Rng, name: &str) -> String {
    let mut out = t.to_string();
    while out.contains("{N}") {
        let n: &str = *rng.pick(NUMBERS);
        out = out.replacen("{N}", n, 1);
    }
    out.replace("{NAME}", name)
}

/// A handcrafted document for `shape` (only Bare / VecOf / RecOf / OptionOf are spliced by hand).
pub fn handcrafted(rng: &mut Rng, fmt: Format, shape: ShapeId, name: &str) -> Vec<u8> {
    let k = match shape {
        ShapeId::VecOf => rng.range_usize(0, 3),
        _ => 1,
    };
    match fmt.base() {
        Format::Json => {
            let items: Vec<String> = (0..k).map(|_| { let t: &str = *rng.pick(JSON); subst(t, rng, name) }).collect();
            match shape {
                ShapeId::VecOf => format!("[{}]", items.join(",")).into_bytes(),
                ShapeId::RecOf => format!("{{\"id\":1,\"val\":{},\"note\":\"n\"}}", items[0]).into_bytes(),
                ShapeId::MapKey => {
                    let n = rng.range_usize(1, 3);
                    let entries: Vec<String> = (0..n).map(|i| { let t: &str = *rng.pick(JSON_KEYS); format!("{}:{}", subst(t, rng, name), i) }).collect();
                    format!("{{{}}}", entries.join(",")).into_bytes()
                }
                ShapeId::MapVal => format!("{{\"k0\":{},\"k1\":{}}}", items[0], { let t: &str = *rng.pick(JSON); subst(t, rng, name) }).into_bytes(),
                _ => items[0].clone().into_bytes(),
            }
        }
        Format::Ron => {
            let items: Vec<String> = (0..k).map(|_| { let t: &str = *rng.pick(RON); subst(t, rng, name) }).collect();
            match shape {
                ShapeId::VecOf => format!("[{}]", items.join(",")).into_bytes(),
                ShapeId::RecOf => format!("(id:1,val:{},note:\"n\")", items[0]).into_bytes(),
                ShapeId::OptionOf => format!("Some({})", items[0]).into_bytes(),
                _ => items[0].clone().into_bytes(),
            }
        }
        Format::Msgpack => {
            let items: Vec<Vec<u8>> = (0..k).map(|_| msgpack_items(rng)).collect();
            match shape {
                ShapeId::VecOf => {
                    let mut v = vec![0x90 | k as u8];
                    for i in items {
                        v.extend(i);
                    }
                    v
                }
                ShapeId::RecOf => {
                    let mut v = vec![0x93, 1];
                    v.extend(items[0].clone());
                    v.extend([0xa1, b'n']);
                    v
                }
                _ => items[0].clone(),
            }
        }
        _ => unreachable!(),
    }
}

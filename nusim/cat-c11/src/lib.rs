//! S-CHAIN catalogue (property C11): declarations using only built-in sanitizers and validators
//! (or custom ones that are idempotent), deriving every entry and exit point the property's
//! conversion chains go through.
//!
//! Nothing but declarations, generators and trait glue. If this crate stops compiling while
//! nutype itself builds, a derived entry/exit point for an accepted declaration is broken.

#![allow(clippy::all)]

use std::fmt::{Debug, Write as _};
use std::sync::LazyLock;

use arbitrary::{Arbitrary, Unstructured};
use nutype::nutype;
use regex::Regex;
use serde::de::DeserializeOwned;
use serde::Serialize;
use simcore::codec::{self, Api, Format};
use simcore::decl::{gen_char, gen_f32, gen_f64, gen_int, gen_string, Repr};
use simcore::rng::Rng;
use simcore::simio::{SimReader, SimSink, SimWriter};

pub static WORD_RE: LazyLock<Regex> = LazyLock::new(|| Regex::new(r"^\p{L}[\p{L}\p{N}]*$").unwrap());

pub trait ChainT: Sized + Clone + Debug + 'static {
    type Inner: Clone + Debug + Repr + Serialize + DeserializeOwned + 'static;
    const NAME: &'static str;
    const TEXT: &'static str;
    const FAMILY: &'static str;
    const VALIDATED: bool;
    const HAS_ARBITRARY: bool;
    const HAS_DEFAULT: bool;

    fn try_new_(i: Self::Inner) -> Result<Self, String>;
    fn into_inner_(self) -> Self::Inner;
    fn via_try_from(i: Self::Inner) -> Result<Self, String>;
    fn via_into(self) -> Self::Inner;
    fn via_as_ref(&self) -> Self::Inner;
    fn via_deref(&self) -> Self::Inner;
    fn display_into(&self, sink: &mut SimSink) -> std::fmt::Result;
    fn from_str_(s: &str) -> Result<Self, String>;
    /// `TryFrom<&str>` (string newtypes only).
    fn try_from_str(s: &str) -> Option<Result<Self, String>>;
    fn ser(&self, fmt: Format, w: &mut SimWriter) -> Result<(), String>;
    fn de(fmt: Format, api: Api, r: &mut SimReader) -> Result<Self, String>;
    fn arb(bytes: &[u8]) -> Option<Result<Self, String>>;
    fn default_() -> Option<Self>;
    fn eq_(&self, o: &Self) -> bool;
    fn gen(rng: &mut Rng) -> Self::Inner;
    fn gen_text(rng: &mut Rng) -> String;
    /// Does the bare inner value survive `to_string()` -> `parse()` bit for bit?
    fn inner_text_roundtrips(i: &Self::Inner) -> bool;
    /// The inner type's own `FromStr`.
    fn inner_from_text(s: &str) -> Option<Self::Inner>;
    fn repr(&self) -> String {
        self.clone().into_inner_().repr()
    }
}

macro_rules! construct_impl {
    (true, $name:ident, $raw:expr) => {
        $name::try_new($raw).map_err(|e| format!("{e:?}"))
    };
    (false, $name:ident, $raw:expr) => {
        Ok($name::new($raw))
    };
}
macro_rules! arb_impl {
    (true, $name:ident, $bytes:expr) => {{
        let mut u = Unstructured::new($bytes);
        Some(<$name as Arbitrary>::arbitrary(&mut u).map_err(|e| format!("{e:?}")))
    }};
    (false, $name:ident, $bytes:expr) => {{
        let _ = $bytes;
        None
    }};
}
macro_rules! default_impl {
    (true, $name:ident) => {
        Some(<$name as Default>::default())
    };
    (false, $name:ident) => {
        None
    };
}
macro_rules! try_from_str_impl {
    (String, $name:ident, $s:expr) => {
        Some(<$name as TryFrom<&str>>::try_from($s).map_err(|e| format!("{e:?}")))
    };
    ($other:ty, $name:ident, $s:expr) => {{
        let _ = $s;
        None
    }};
}

macro_rules! as_ref_impl {
    (String, $name:ident, $s:expr) => {
        <$name as AsRef<str>>::as_ref($s).to_string()
    };
    ($other:ty, $name:ident, $s:expr) => {
        <$name as AsRef<$other>>::as_ref($s).clone()
    };
}

pub type Text = String;

pub const fn cap_500(x: i32) -> i32 {
    if x > 500 {
        500
    } else {
        x
    }
}

macro_rules! chain_decls {
    (
        list = $list:ident, with = $with:ident, surface = $surface:ident;
        $(
            #[nutype( $($attr:tt)* )]
            struct $name:ident ( $inner:tt );
            family = $fam:expr;
            validated = $val:tt;
            arbitrary = $arb:tt;
            default = $def:tt;
            gen = $gen:expr;
            text = $text:expr;
        )*
    ) => {
        $(
            #[nutype( $($attr)* )]
            pub struct $name($inner);

            impl ChainT for $name {
                type Inner = $inner;
                const NAME: &'static str = stringify!($name);
                const TEXT: &'static str = stringify!($($attr)*);
                const FAMILY: &'static str = $fam;
                const VALIDATED: bool = $val;
                const HAS_ARBITRARY: bool = $arb;
                const HAS_DEFAULT: bool = $def;
                fn try_new_(i: $inner) -> Result<Self, String> {
                    construct_impl!($val, $name, i)
                }
                fn into_inner_(self) -> $inner {
                    self.into_inner()
                }
                fn via_try_from(i: $inner) -> Result<Self, String> {
                    <$name as TryFrom<$inner>>::try_from(i).map_err(|e| format!("{e:?}"))
                }
                fn via_into(self) -> $inner {
                    <$name as Into<$inner>>::into(self)
                }
                fn via_as_ref(&self) -> $inner {
                    as_ref_impl!($inner, $name, self)
                }
                fn via_deref(&self) -> $inner {
                    let target: &$inner = ::core::ops::Deref::deref(self);
                    target.clone()
                }
                fn display_into(&self, sink: &mut SimSink) -> std::fmt::Result {
                    write!(sink, "{}", self)
                }
                fn from_str_(s: &str) -> Result<Self, String> {
                    s.parse::<$name>().map_err(|e| format!("{e:?}"))
                }
                fn try_from_str(s: &str) -> Option<Result<Self, String>> {
                    try_from_str_impl!($inner, $name, s)
                }
                fn ser(&self, fmt: Format, w: &mut SimWriter) -> Result<(), String> {
                    codec::ser(fmt, self, w)
                }
                fn de(fmt: Format, api: Api, r: &mut SimReader) -> Result<Self, String> {
                    codec::de::<$name>(fmt, api, r)
                }
                fn arb(bytes: &[u8]) -> Option<Result<Self, String>> {
                    arb_impl!($arb, $name, bytes)
                }
                fn default_() -> Option<Self> {
                    default_impl!($def, $name)
                }
                fn eq_(&self, o: &Self) -> bool {
                    self == o
                }
                fn gen(rng: &mut Rng) -> $inner {
                    let g: fn(&mut Rng) -> $inner = $gen;
                    g(rng)
                }
                fn gen_text(rng: &mut Rng) -> String {
                    let g: fn(&mut Rng) -> String = $text;
                    g(rng)
                }
                fn inner_from_text(s: &str) -> Option<$inner> {
                    s.parse::<$inner>().ok()
                }
                fn inner_text_roundtrips(i: &$inner) -> bool {
                    match i.to_string().parse::<$inner>() {
                        Ok(j) => j.repr() == i.repr(),
                        Err(_) => false,
                    }
                }
            }
        )*

        pub const $list: &[&str] = &[ $( stringify!($name), )* ];

        pub fn $with<V: ChainVisitor>(idx: usize, v: V) -> V::Out {
            let mut i = 0usize;
            $(
                if idx == i {
                    return v.visit::<$name>();
                }
                i += 1;
            )*
            let _ = i;
            unreachable!("declaration index out of range")
        }

        // The trait surface C11's chains presuppose.
        #[allow(dead_code)]
        fn $surface() {
            fn a<T: Clone + PartialEq + std::fmt::Display + std::str::FromStr + Serialize + DeserializeOwned>() {}
            $( a::<$name>(); )*
        }
    };
}

pub trait ChainVisitor {
    type Out;
    fn visit<T: ChainT>(self) -> Self::Out;
}

/// Idempotent custom sanitizer that can CREATE leading/trailing white space.
fn separators_to_spaces(s: String) -> String {
    s.replace(['_', '-'], " ")
}

/// Idempotent custom sanitizer that can make a non-empty string EMPTY (and shorter in general).
fn remove_dashes(s: String) -> String {
    s.replace('-', "")
}
/// Idempotent custom sanitizer that can make a string LONGER.
fn amp_to_and(s: String) -> String {
    s.replace('&', "and")
}
/// Idempotent custom sanitizer that turns ASCII-only input into NON-ASCII cased letters
/// (`e^` -> `ê`, `E^` -> `Ê`); commutes with the case sanitizers.
fn hat_to_circumflex(s: String) -> String {
    s.replace("e^", "\u{ea}").replace("E^", "\u{ca}")
}
fn gen_hat_string(rng: &mut Rng) -> String {
    match rng.below(4) {
        0 => {
            let n = rng.range_usize(1, 8);
            (0..n).map(|_| *rng.pick(&["e^", "E^", "e", "E", "^", "a", "B", " ", "x^"])).collect()
        }
        1 => {
            let mut s = gen_string(rng, 4);
            s.push_str(*rng.pick(&["e^", "E^", "Te^st", "CAFE^"]));
            s
        }
        2 => (*rng.pick(&["CAFE^", "cafe^", " E^e^ ", "e^^", "Ee^"])).to_string(),
        _ => gen_string(rng, 8),
    }
}
/// Idempotent custom sanitizers whose result depends on edge white space / on position.
fn spaces_to_underscores(s: String) -> String {
    s.replace(' ', "_")
}
fn first_four_chars(s: String) -> String {
    s.chars().take(4).collect()
}
fn gen_pad_string(rng: &mut Rng) -> String {
    let mut t = gen_string(rng, 6);
    if rng.chance(1, 2) {
        t.insert_str(0, *rng.pick(&[" ", "  ", "     ", "\t", "\u{2003}"]));
    }
    if rng.chance(1, 3) {
        t.push(' ');
    }
    t
}
fn gen_dash_string(rng: &mut Rng) -> String {
    match rng.below(4) {
        0 => "-".repeat(rng.range_usize(1, 4)),
        1 => {
            let mut s = gen_string(rng, 5);
            s.push('-');
            s.insert(0, '-');
            s
        }
        2 => {
            let n = rng.range_usize(0, 9);
            (0..n).map(|_| *rng.pick(&['a', '&', 'B', '-', 'ß'])).collect()
        }
        _ => gen_string(rng, 8),
    }
}

fn gen_sep_string(rng: &mut Rng) -> String {
    let mut s = String::new();
    for _ in 0..rng.below(3) {
        s.push(*rng.pick(&['_', '-', ' ', '\u{2003}']));
    }
    s.push_str(&gen_string(rng, 6));
    if rng.chance(1, 2) {
        let at = s.char_indices().map(|c| c.0).nth(rng.usize_below(s.chars().count().max(1))).unwrap_or(0);
        s.insert(at, *rng.pick(&['_', '-']));
    }
    for _ in 0..rng.below(3) {
        s.push(*rng.pick(&['_', '-', ' ', '\t']));
    }
    s
}

fn num_text(rng: &mut Rng, lo: i128, hi: i128) -> String {
    let v = gen_int(rng, lo, hi, i64::MIN as i128 * 4, i64::MAX as i128 * 4);
    match rng.below(10) {
        0 => format!("+{v}"),
        1 => format!("0{v}"),
        2 => format!(" {v}"),
        3 => format!("{v} "),
        4 => format!("{v}.0"),
        5 => format!("{v}e0"),
        6 => String::new(),
        7 => "-0".into(),
        _ => v.to_string(),
    }
}

fn float_text(rng: &mut Rng, lo: f64, hi: f64) -> String {
    let v = gen_f64(rng, lo, hi);
    match rng.below(12) {
        0 => "NaN".into(),
        1 => "inf".into(),
        2 => "-inf".into(),
        3 => "-0".into(),
        4 => "1e400".into(),
        5 => format!("{v:e}"),
        6 => format!("+{v}"),
        7 => format!(" {v}"),
        8 => "0.1".into(),
        9 => ".5".into(),
        _ => v.to_string(),
    }
}

chain_decls! {
    list = CHAIN_BASE, with = with_chain_base, surface = _assert_surface_base;
    // the `any` family (inner types the macro does not know): text or a char that may itself be
    // white space, entering through the shared non-string FromStr / TryFrom / Deserialize code
    #[nutype(derive(Debug, Clone, PartialEq, Display, FromStr, From, Into, AsRef, Deref, Serialize, Deserialize))]
    struct AnyText(Text);
    family = "other"; validated = false; arbitrary = false; default = false;
    gen = |r| gen_string(r, 6);
    text = |r| gen_string(r, 6);

    #[nutype(validate(predicate = |c| *c != '\u{0}'), derive(Debug, Clone, Copy, PartialEq, Display, FromStr, TryFrom, Into, AsRef, Deref, Serialize, Deserialize))]
    struct AnySep(char);
    family = "other"; validated = true; arbitrary = false; default = false;
    gen = |r| gen_char(r);
    text = |r| gen_char(r).to_string();

    // `new_unchecked` and `const_fn` opted in: every safe entry point still goes through the guards
    #[nutype(new_unchecked, sanitize(trim, uppercase), validate(not_empty, len_char_max = 10), default = " ok ",
        derive(Debug, Clone, PartialEq, Display, FromStr, TryFrom, Into, AsRef, Deref, Serialize, Deserialize, Default, Arbitrary))]
    struct UncheckedUpper(String);
    family = "string"; validated = true; arbitrary = true; default = true;
    gen = |r| gen_string(r, 8);
    text = |r| gen_string(r, 8);

    #[nutype(new_unchecked, const_fn, sanitize(with = cap_500), validate(greater_or_equal = -500, less_or_equal = 500),
        derive(Debug, Clone, Copy, PartialEq, Display, FromStr, TryFrom, Into, AsRef, Deref, Serialize, Deserialize))]
    struct UncheckedCapI32(i32);
    family = "integer"; validated = true; arbitrary = false; default = false;
    gen = |r| gen_int(r, -510, 510, i32::MIN as i128, i32::MAX as i128) as i32;
    text = |r| num_text(r, -510, 510);

    // ------------------------------------------------------------------ strings: every order of {trim, lowercase|uppercase}
    #[nutype(sanitize(trim, lowercase), validate(not_empty, len_char_max = 12), default = "x",
        derive(Debug, Clone, PartialEq, Display, FromStr, TryFrom, Into, AsRef, Deref, Serialize, Deserialize, Default, Arbitrary))]
    struct TrimLower(String);
    family = "string"; validated = true; arbitrary = true; default = true;
    gen = |r| gen_string(r, 12);
    text = |r| gen_string(r, 12);

    #[nutype(sanitize(lowercase, trim), validate(len_char_min = 1, len_char_max = 12),
        derive(Debug, Clone, PartialEq, Display, FromStr, TryFrom, Into, AsRef, Deref, Serialize, Deserialize, Arbitrary))]
    struct LowerTrim(String);
    family = "string"; validated = true; arbitrary = true; default = false;
    gen = |r| gen_string(r, 12);
    text = |r| gen_string(r, 12);

    #[nutype(sanitize(trim, uppercase), validate(len_char_max = 12), default = "  ß  ",
        derive(Debug, Clone, PartialEq, Display, FromStr, TryFrom, Into, AsRef, Deref, Serialize, Deserialize, Default, Arbitrary))]
    struct TrimUpper(String);
    family = "string"; validated = true; arbitrary = true; default = true;
    gen = |r| gen_string(r, 12);
    text = |r| gen_string(r, 12);

    #[nutype(sanitize(uppercase, trim), validate(not_empty),
        derive(Debug, Clone, PartialEq, Display, FromStr, TryFrom, Into, AsRef, Deref, Serialize, Deserialize, Arbitrary))]
    struct UpperTrim(String);
    family = "string"; validated = true; arbitrary = true; default = false;
    gen = |r| gen_string(r, 8);
    text = |r| gen_string(r, 8);

    #[nutype(sanitize(trim), validate(len_char_min = 2),
        derive(Debug, Clone, PartialEq, Display, FromStr, TryFrom, Into, AsRef, Deref, Serialize, Deserialize, Arbitrary))]
    struct TrimOnly(String);
    family = "string"; validated = true; arbitrary = true; default = false;
    gen = |r| gen_string(r, 6);
    text = |r| gen_string(r, 6);

    #[nutype(sanitize(lowercase), default = "ΑΣ",
        derive(Debug, Clone, PartialEq, Display, FromStr, From, Into, AsRef, Deref, Serialize, Deserialize, Default, Arbitrary))]
    struct LowerOnly(String);
    family = "string"; validated = false; arbitrary = true; default = true;
    gen = |r| gen_string(r, 8);
    text = |r| gen_string(r, 8);

    #[nutype(sanitize(uppercase), validate(len_char_max = 8),
        derive(Debug, Clone, PartialEq, Display, FromStr, TryFrom, Into, AsRef, Deref, Serialize, Deserialize, Arbitrary))]
    struct UpperOnly(String);
    family = "string"; validated = true; arbitrary = true; default = false;
    gen = |r| gen_string(r, 8);
    text = |r| gen_string(r, 8);

    #[nutype(sanitize(trim, lowercase), validate(regex = "^[a-z0-9σςß-]+$", len_char_max = 16),
        derive(Debug, Clone, PartialEq, Display, FromStr, TryFrom, Into, AsRef, Deref, Serialize, Deserialize))]
    struct RegexSlug(String);
    family = "string"; validated = true; arbitrary = false; default = false;
    gen = |r| {
        let n = r.range_usize(0, 10);
        let mut s = String::new();
        if r.chance(1, 3) { s.push(*r.pick(simcore::decl::WHITESPACE)); }
        for _ in 0..n { s.push(*r.pick(&['a', 'B', '0', '-', 'Σ', 'σ', 'ς', 'ß', 'ẞ', 'K', 'z', '_'])); }
        if r.chance(1, 3) { s.push(*r.pick(simcore::decl::WHITESPACE)); }
        s
    };
    text = |r| gen_string(r, 8);

    #[nutype(sanitize(trim), validate(regex = WORD_RE, len_char_max = 10),
        derive(Debug, Clone, PartialEq, Display, FromStr, TryFrom, Into, AsRef, Deref, Serialize, Deserialize))]
    struct RegexWord(String);
    family = "string"; validated = true; arbitrary = false; default = false;
    gen = |r| gen_string(r, 6);
    text = |r| gen_string(r, 6);

    // custom idempotent sanitizer interleaved with the built-in ones (orders whose composition is
    // itself idempotent: the custom step never runs after the last trim)
    #[nutype(sanitize(lowercase, with = separators_to_spaces, trim), validate(not_empty, len_char_max = 16),
        derive(Debug, Clone, PartialEq, Display, FromStr, TryFrom, Into, AsRef, Deref, Serialize, Deserialize))]
    struct LowerSepTrim(String);
    family = "string"; validated = true; arbitrary = false; default = false;
    gen = |r| gen_sep_string(r);
    text = |r| gen_sep_string(r);

    #[nutype(sanitize(with = separators_to_spaces, trim, lowercase), validate(len_char_max = 16),
        derive(Debug, Clone, PartialEq, Display, FromStr, TryFrom, Into, AsRef, Deref, Serialize, Deserialize))]
    struct SepTrimLower(String);
    family = "string"; validated = true; arbitrary = false; default = false;
    gen = |r| gen_sep_string(r);
    text = |r| gen_sep_string(r);

    #[nutype(sanitize(uppercase, with = separators_to_spaces, trim),
        derive(Debug, Clone, PartialEq, Display, FromStr, From, Into, AsRef, Deref, Serialize, Deserialize))]
    struct UpperSepTrim(String);
    family = "string"; validated = false; arbitrary = false; default = false;
    gen = |r| gen_sep_string(r);
    text = |r| gen_sep_string(r);

    #[nutype(sanitize(with = separators_to_spaces, uppercase, trim), validate(not_empty),
        derive(Debug, Clone, PartialEq, Display, FromStr, TryFrom, Into, AsRef, Deref, Serialize, Deserialize))]
    struct SepUpperTrim(String);
    family = "string"; validated = true; arbitrary = false; default = false;
    gen = |r| gen_sep_string(r);
    text = |r| gen_sep_string(r);

    #[nutype(sanitize(with = remove_dashes, lowercase), validate(not_empty, len_char_max = 10),
        derive(Debug, Clone, PartialEq, Display, FromStr, TryFrom, Into, AsRef, Deref, Serialize, Deserialize))]
    struct DashlessLower(String);
    family = "string"; validated = true; arbitrary = false; default = false;
    gen = |r| gen_dash_string(r);
    text = |r| gen_dash_string(r);

    #[nutype(sanitize(uppercase, with = remove_dashes), validate(not_empty),
        derive(Debug, Clone, PartialEq, Display, FromStr, TryFrom, Into, AsRef, Deref, Serialize, Deserialize))]
    struct UpperDashless(String);
    family = "string"; validated = true; arbitrary = false; default = false;
    gen = |r| gen_dash_string(r);
    text = |r| gen_dash_string(r);

    #[nutype(sanitize(with = amp_to_and), validate(len_char_min = 2, len_char_max = 8),
        derive(Debug, Clone, PartialEq, Display, FromStr, TryFrom, Into, AsRef, Deref, Serialize, Deserialize))]
    struct AmpAnd(String);
    family = "string"; validated = true; arbitrary = false; default = false;
    gen = |r| gen_dash_string(r);
    text = |r| gen_dash_string(r);

    #[nutype(validate(len_char_min = 1),
        derive(Debug, Clone, PartialEq, Display, FromStr, TryFrom, Into, AsRef, Deref, Serialize, Deserialize, Arbitrary))]
    struct PlainNonEmpty(String);
    family = "string"; validated = true; arbitrary = true; default = false;
    gen = |r| gen_string(r, 5);
    text = |r| gen_string(r, 5);

    // ------------------------------------------------------------------ integers
    #[nutype(validate(less_or_equal = 100), default = 50,
        derive(Debug, Clone, Copy, PartialEq, Eq, PartialOrd, Ord, Hash, Display, FromStr, TryFrom, Into, AsRef, Deref, Serialize, Deserialize, Default, Arbitrary))]
    struct Percent(u8);
    family = "integer"; validated = true; arbitrary = true; default = true;
    gen = |r| gen_int(r, 0, 100, 0, 255) as u8;
    text = |r| num_text(r, 0, 100);

    #[nutype(validate(greater = -1000, less = 1000),
        derive(Debug, Clone, Copy, PartialEq, Display, FromStr, TryFrom, Into, AsRef, Deref, Serialize, Deserialize, Arbitrary))]
    struct Signed(i64);
    family = "integer"; validated = true; arbitrary = true; default = false;
    gen = |r| gen_int(r, -999, 999, i64::MIN as i128, i64::MAX as i128) as i64;
    text = |r| num_text(r, -999, 999);

    #[nutype(derive(Debug, Clone, Copy, PartialEq, Display, FromStr, From, Into, AsRef, Deref, Serialize, Deserialize, Arbitrary))]
    struct FreeI32(i32);
    family = "integer"; validated = false; arbitrary = true; default = false;
    gen = |r| gen_int(r, -5, 5, i32::MIN as i128, i32::MAX as i128) as i32;
    text = |r| num_text(r, -5, 5);

    #[nutype(validate(greater_or_equal = 1),
        derive(Debug, Clone, Copy, PartialEq, Display, FromStr, TryFrom, Into, AsRef, Deref, Serialize, Deserialize, Arbitrary))]
    struct PositiveU128(u128);
    family = "integer"; validated = true; arbitrary = true; default = false;
    gen = |r| if r.chance(1, 3) { u128::MAX - r.below(3) as u128 } else { gen_int(r, 1, 1 << 70, 0, i128::MAX) as u128 };
    text = |r| num_text(r, 1, 1 << 70);

    #[nutype(sanitize(with = |x: i32| x.clamp(-50, 50)), validate(greater_or_equal = -50, less_or_equal = 50),
        derive(Debug, Clone, Copy, PartialEq, Display, FromStr, TryFrom, Into, AsRef, Deref, Serialize, Deserialize))]
    struct ClampedI32(i32);
    family = "integer"; validated = true; arbitrary = false; default = false;
    gen = |r| gen_int(r, -50, 50, i32::MIN as i128, i32::MAX as i128) as i32;
    text = |r| num_text(r, -50, 50);

    #[nutype(sanitize(with = |x: i32| x.wrapping_abs()),
        derive(Debug, Clone, Copy, PartialEq, Display, FromStr, From, Into, AsRef, Deref, Serialize, Deserialize, Arbitrary))]
    struct AbsI32(i32);
    family = "integer"; validated = false; arbitrary = true; default = false;
    gen = |r| gen_int(r, -5, 5, i32::MIN as i128, i32::MAX as i128) as i32;
    text = |r| num_text(r, -5, 5);

    // idempotent custom sanitizer whose result can fall out of the valid set
    #[nutype(sanitize(with = |n: u32| n - n % 10), validate(greater = 10),
        derive(Debug, Clone, Copy, PartialEq, Display, FromStr, TryFrom, Into, AsRef, Deref, Serialize, Deserialize))]
    struct RoundTens(u32);
    family = "integer"; validated = true; arbitrary = false; default = false;
    gen = |r| gen_int(r, 0, 40, 0, u32::MAX as i128) as u32;
    text = |r| num_text(r, 0, 40);

    // ------------------------------------------------------------------ floats
    #[nutype(validate(finite, greater_or_equal = 0.0, less_or_equal = 1.0), default = 0.5,
        derive(Debug, Clone, Copy, PartialEq, Eq, PartialOrd, Ord, Display, FromStr, TryFrom, Into, AsRef, Deref, Serialize, Deserialize, Default, Arbitrary))]
    struct UnitF64(f64);
    family = "float"; validated = true; arbitrary = true; default = true;
    gen = |r| gen_f64(r, 0.0, 1.0);
    text = |r| float_text(r, 0.0, 1.0);

    #[nutype(validate(finite),
        derive(Debug, Clone, Copy, PartialEq, Display, FromStr, TryFrom, Into, AsRef, Deref, Serialize, Deserialize, Arbitrary))]
    struct FiniteF32(f32);
    family = "float"; validated = true; arbitrary = true; default = false;
    gen = |r| gen_f32(r, -1e6, 1e6);
    text = |r| float_text(r, -1e6, 1e6);

    #[nutype(validate(greater = 0.0),
        derive(Debug, Clone, Copy, PartialEq, Display, FromStr, TryFrom, Into, AsRef, Deref, Serialize, Deserialize, Arbitrary))]
    struct PositiveF64(f64);
    family = "float"; validated = true; arbitrary = true; default = false;
    gen = |r| gen_f64(r, 0.0, 1e9);
    text = |r| float_text(r, 0.0, 1e9);

    // idempotent custom sanitizer (round to cents) whose result can fall out of the valid set
    #[nutype(sanitize(with = |x: f64| (x * 100.0).round() / 100.0), validate(finite, greater = 0.0, less = 1000.0),
        derive(Debug, Clone, Copy, PartialEq, Display, FromStr, TryFrom, Into, AsRef, Deref, Serialize, Deserialize))]
    struct Cents(f64);
    family = "float"; validated = true; arbitrary = false; default = false;
    gen = |r| if r.chance(1, 3) { gen_f64(r, 0.0, 0.02) } else { gen_f64(r, 0.0, 1000.0) };
    text = |r| if r.chance(1, 3) { format!("0.00{}", r.below(10)) } else { float_text(r, 0.0, 1000.0) };

    #[nutype(sanitize(with = |x: f64| x.abs()),
        derive(Debug, Clone, Copy, PartialEq, Display, FromStr, From, Into, AsRef, Deref, Serialize, Deserialize, Arbitrary))]
    struct AbsF64(f64);
    family = "float"; validated = false; arbitrary = true; default = false;
    gen = |r| gen_f64(r, -10.0, 10.0);
    text = |r| float_text(r, -10.0, 10.0);
}

mod matrix;
pub use matrix::CHAIN_MATRIX;

pub fn chain_names() -> Vec<&'static str> {
    CHAIN_BASE.iter().chain(CHAIN_MATRIX.iter()).copied().collect()
}
pub fn n_chain_decls() -> usize {
    CHAIN_BASE.len() + CHAIN_MATRIX.len()
}
pub fn chain_index(name: &str) -> Option<usize> {
    chain_names().iter().position(|n| *n == name)
}
pub fn with_chain<V: ChainVisitor>(idx: usize, v: V) -> V::Out {
    if idx < CHAIN_BASE.len() {
        with_chain_base(idx, v)
    } else {
        matrix::with_chain_matrix(idx - CHAIN_BASE.len(), v)
    }
}

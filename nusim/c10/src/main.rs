//! S-SER (property C10): serialization through a tracing format peer and through simulated
//! writers / disk / crash, then read back.
//!
//! Invariants:
//!   T1 call-exact:  trace(Shape<T>) == trace(Shape<Twin>)                    (SimFormat peer)
//!   T2 transparent: trace(T) == [serialize_newtype_struct(NAME)] ++ trace(inner)   (bare)
//!   T3 an injected format error at call k is propagated: same outcome/prefix as the twin, no panic
//!   W1 byte- and fault-exact: under cloned SimWriters with one write plan, the offered buffers,
//!      accepted chunks, bytes on disk and Ok/Err are identical for T and its twin (3 formats)
//!   W2 in JSON and MessagePack the bare newtype's bytes equal the bare inner value's bytes
//!   R1 durability/round trip: an acknowledged, synced, uncorrupted put reads back (fault-free or
//!      under benign read faults) as a value equal to v whenever the twin's own round trip is
//!      the identity for that value in that format
//!   R2 anything else on disk reads back as Err or as a value the real constructor accepts

use std::collections::BTreeMap;
use std::time::{Duration, Instant};

use cat_c10::{c10_decls, decl_index, decl_is_core, decl_name, with_decl, DeclVisitor};
use serde::{Deserialize, Serialize};
use serde_json::{json, Map, Value};
use simcore::codec::{Api, Format};
use simcore::decl::Decl;
use simcore::diff::{diff_get, Side};
use simcore::report::{self, Config, EvidenceExtra};
use simcore::rng::{Fnv, Rng};
use simcore::runner::{self, Stats, Violation, WorkerCtx};
use simcore::serdiff::{ser_pair, trace_pair, trace_pair_as};
use simcore::shapes::{arity, Aux, ShapeId};
use simcore::simformat::{from_tokens, to_tokens, Byz, Tok};
use simcore::simio::{Corrupt, CrashMode, IoErr, ReadStep, SimDisk, SimReader, WriteStep};

const PROPERTY: &str = "C10";
const SC_SER: u64 = 1001;
const HANG_LIMIT: Duration = Duration::from_secs(120);

#[derive(Serialize, Deserialize, Clone, Debug)]
enum After {
    Sync,
    Crash(CrashMode),
    Corrupt(Corrupt),
    Get { api: Api, rplan: Vec<ReadStep>, tail: u32 },
}

#[derive(Serialize, Deserialize, Clone, Debug)]
struct SerPlan {
    scenario: String,
    decl: String,
    shape: ShapeId,
    fmt: Format,
    aux: Aux,
    /// The raw inputs (SimFormat tokens of `Vec<Inner>`, lossless for NaN payloads and -0.0); each
    /// is accepted by the real constructor, which sanitises it into the value that is serialized.
    raws: Vec<Tok>,
    wplan: Vec<WriteStep>,
    tail: u32,
    flush_fail_at: Option<u32>,
    trace_fail_at: Option<usize>,
    after: Vec<After>,
}

// ------------------------------------------------------------------------------------ building

fn gen_valid<D: Decl>(rng: &mut Rng) -> Option<D::TwinInner> {
    for _ in 0..12 {
        let r = D::gen(rng);
        if D::lift(r.clone()).and_then(D::construct).is_ok() {
            return Some(r);
        }
    }
    D::corpus().into_iter().find(|r| D::lift(r.clone()).and_then(D::construct).is_ok())
}

fn gen_wplan(rng: &mut Rng) -> (Vec<WriteStep>, u32, Option<u32>) {
    let flush = if rng.chance(1, 12) { Some(rng.below(2) as u32) } else { None };
    match rng.below(10) {
        0..=2 => (vec![], 0, flush),
        3 | 4 => (vec![], *rng.pick(&[1u32, 2, 3, 5]), flush),
        5 | 6 => {
            let n = rng.range_usize(1, 10);
            ((0..n).map(|_| if rng.chance(1, 3) { WriteStep::Eintr } else { WriteStep::Accept(rng.range(1, 6) as u32) }).collect(), *rng.pick(&[0u32, 1]), flush)
        }
        _ => {
            let chunk = *rng.pick(&[1u32, 2, 4]);
            let at = rng.usize_below(40);
            let mut plan: Vec<WriteStep> = (0..at).map(|_| WriteStep::Accept(chunk)).collect();
            if rng.chance(1, 4) {
                plan.insert(rng.usize_below(plan.len() + 1), WriteStep::Eintr);
            }
            plan.push(if rng.chance(1, 3) { WriteStep::Zero } else { WriteStep::Fail(*rng.pick(&IoErr::ALL)) });
            (plan, chunk, flush)
        }
    }
}

fn gen_benign_rplan(rng: &mut Rng) -> (Vec<ReadStep>, u32) {
    match rng.below(4) {
        0 => (vec![], 0),
        1 => (vec![], *rng.pick(&[1u32, 2, 3, 7])),
        _ => {
            let n = rng.range_usize(1, 10);
            ((0..n).map(|_| if rng.chance(1, 3) { ReadStep::Eintr } else { ReadStep::Deliver(rng.range(1, 7) as u32) }).collect(), *rng.pick(&[0u32, 1, 5]))
        }
    }
}

fn gen_corruption(rng: &mut Rng) -> Corrupt {
    match rng.below(4) {
        0 => Corrupt::BitFlip { at: rng.next_u32(), bit: rng.below(8) as u8 },
        1 => Corrupt::ByteDrop { at: rng.next_u32() },
        2 => Corrupt::Truncate { len: rng.next_u32() },
        _ => Corrupt::ByteDup { at: rng.next_u32() },
    }
}

struct Build<'a> {
    rng: &'a mut Rng,
}

impl<'a> DeclVisitor for Build<'a> {
    type Out = Option<SerPlan>;
    fn visit<D: Decl>(self, core: bool) -> Option<SerPlan> {
        let rng = self.rng;
        let _ = core;
        let shape = *rng.pick(<D::Shapes as simcore::shapes::ShapeSet>::LIST);
        let fmt = *rng.pick(&Format::ALL);
        let aux = Aux::draw(rng);
        let k = arity(shape, &aux);
        let mut raws = Vec::new();
        for _ in 0..k {
            raws.push(gen_valid::<D>(rng)?);
        }
        let toks = to_tokens(&raws).ok()?;
        let (wplan, tail, flush_fail_at) = gen_wplan(rng);
        let trace_fail_at = if rng.chance(1, 2) { Some(rng.usize_below(24)) } else { None };
        let mut after = Vec::new();
        let n = rng.range_usize(1, 4);
        for i in 0..n {
            let last = i + 1 == n;
            let c = if last { 3 } else { rng.weighted(&[45, 15, 12, 28]) };
            after.push(match c {
                0 => After::Sync,
                1 => After::Crash(match rng.below(3) {
                    0 => CrashMode::LoseUnsynced,
                    1 => CrashMode::TornPrefix(rng.below(48) as u32),
                    _ => CrashMode::TornInPlace(rng.below(48) as u32),
                }),
                2 => After::Corrupt(gen_corruption(rng)),
                _ => {
                    let (rplan, tail) = gen_benign_rplan(rng);
                    After::Get { api: *rng.pick(&[Api::Reader, Api::Reader, Api::Slice, Api::Str, Api::Value]), rplan, tail }
                }
            });
        }
        Some(SerPlan { scenario: "ser".into(), decl: D::NAME.to_string(), shape, fmt, aux, raws: toks, wplan, tail, flush_fail_at, trace_fail_at, after })
    }
}

// ------------------------------------------------------------------------------------ execution

#[derive(Default)]
struct Out {
    evals: u64,
    steps: u64,
    log: Fnv,
    fired: BTreeMap<&'static str, u64>,
    probes: BTreeMap<&'static str, u64>,
    classes: BTreeMap<&'static str, u64>,
    distinct: Vec<u64>,
    violations: Vec<(String, String)>,
    invalid_plan: bool,
}

impl Out {
    fn fire(&mut self, k: &'static str, n: u64) {
        if n > 0 {
            *self.fired.entry(k).or_insert(0) += n;
        }
    }
    fn probe(&mut self, k: &'static str) {
        *self.probes.entry(k).or_insert(0) += 1;
    }
    fn class(&mut self, k: &'static str) {
        *self.classes.entry(k).or_insert(0) += 1;
    }
    fn bad(&mut self, inv: &str, detail: String) {
        self.violations.push((inv.to_string(), detail));
    }
}

struct Exec<'a> {
    p: &'a SerPlan,
}

fn short(v: &[u8]) -> String {
    let s = report::hex(&v[..v.len().min(48)]);
    if v.len() > 48 {
        format!("{s}..({} bytes)", v.len())
    } else {
        s
    }
}

impl<'a> DeclVisitor for Exec<'a> {
    type Out = Out;
    fn visit<D: Decl>(self, core: bool) -> Out {
        let p = self.p;
        let mut out = Out::default();
        out.log.str(&p.decl);
        let (raws, _, _, _) = from_tokens::<Vec<D::TwinInner>>(&p.raws, "", Byz::Honest, None);
        let Ok(raws) = raws else {
            out.invalid_plan = true;
            return out;
        };
        if raws.len() != arity(p.shape, &p.aux) || raws.iter().any(|r| D::lift(r.clone()).and_then(D::construct).is_err()) {
            out.invalid_plan = true;
            return out;
        }

        // ---- T1 / T2: call-exact transparency through the tracing peer
        match trace_pair::<D>(p.shape, core, &p.aux, raws.clone(), None) {
            Err(e) => {
                out.invalid_plan = true;
                let _ = e;
                return out;
            }
            Ok(tp) => {
                out.evals += 1;
                out.steps += tp.a.calls as u64;
                if let Some(m) = &tp.a.panicked {
                    out.bad("serialize_does_not_panic", format!("Serialize panicked: {m}"));
                } else if !tp.a.ok {
                    out.bad("serialize_succeeds_on_infallible_format", format!("Serialize returned Err({}) on a format that never fails", tp.a.err));
                } else if tp.a.toks != tp.b.toks {
                    out.bad("serializer_call_sequence_equals_newtype_struct_around_inner", format!("T drives the serializer with {:?}, the serde-derived newtype struct of the same name with {:?}", tp.a.toks, tp.b.toks));
                }
                if let Some(inner) = &tp.inner {
                    let mut want = vec![Tok::NewtypeStruct(D::NAME.to_string())];
                    want.extend(inner.toks.iter().cloned());
                    if tp.a.ok && tp.a.toks != want {
                        out.bad("serializer_call_sequence_equals_newtype_struct_around_inner", format!("T drives the serializer with {:?}, expected serialize_newtype_struct({:?}) followed by the inner value's own calls {:?}", tp.a.toks, D::NAME, inner.toks));
                    }
                    out.probe("probe.bare_trace_compared_with_inner");
                }
                out.log.u64(tp.a.calls as u64);
            }
        }
        // ---- T1 again on a peer that says it is NOT human readable (binary-like format)
        if let Ok(tp) = trace_pair_as::<D>(p.shape, core, &p.aux, raws.clone(), None, true) {
            out.evals += 1;
            out.probe("probe.trace_compared_on_binary_like_peer");
            if let Some(m) = &tp.a.panicked {
                out.bad("serialize_does_not_panic", format!("Serialize panicked on a non-human-readable peer: {m}"));
            } else if tp.a.ok != tp.b.ok || tp.a.toks != tp.b.toks {
                out.bad("serializer_call_sequence_equals_newtype_struct_around_inner", format!("non-human-readable peer: T drives the serializer with {:?}, the serde-derived newtype struct with {:?}", tp.a.toks, tp.b.toks));
            }
        }
        // ---- T3: format error at call k is propagated
        if let Some(k) = p.trace_fail_at {
            if let Ok(tp) = trace_pair::<D>(p.shape, core, &p.aux, raws.clone(), Some(k)) {
                out.evals += 1;
                if tp.a.injected {
                    out.fire("fault.format_error", 1);
                }
                if let Some(m) = &tp.a.panicked {
                    out.bad("serialize_does_not_panic", format!("Serialize panicked after a format error at call {k}: {m}"));
                } else if tp.a.ok != tp.b.ok || tp.a.toks != tp.b.toks || tp.a.injected != tp.b.injected || tp.a.calls != tp.b.calls {
                    out.bad("format_error_propagated_like_twin", format!("format error at call {k}: T ok={} calls={} toks={:?}; twin ok={} calls={} toks={:?}", tp.a.ok, tp.a.calls, tp.a.toks, tp.b.ok, tp.b.calls, tp.b.toks));
                } else if tp.a.injected && tp.a.ok {
                    out.bad("format_error_propagated_like_twin", format!("format error injected at call {k} was swallowed"));
                }
                if let Some(inner) = &tp.inner {
                    if k >= 1 && tp.a.injected != inner.injected {
                        out.bad("format_error_propagated_like_twin", format!("format error at call {k}: T injected={}, bare inner (shifted by one call) injected={}", tp.a.injected, inner.injected));
                    }
                }
            }
        }

        // ---- W1 / W2: byte- and fault-exact through the simulated writer
        let sp = match ser_pair::<D>(p.shape, core, p.fmt, &p.aux, raws.clone(), &p.wplan, p.tail, p.flush_fail_at) {
            Ok(sp) => sp,
            Err(_) => {
                out.invalid_plan = true;
                return out;
            }
        };
        out.evals += 1;
        out.steps += sp.a.calls;
        out.fire("fault.short_write", sp.a.log.short_writes);
        out.fire("fault.write_eintr", sp.a.log.eintr);
        out.fire("fault.write_io_error", sp.a.log.hard_errors);
        out.fire("fault.disk_full", sp.a.log.zero_writes);
        out.fire("fault.flush_error", sp.a.log.flush_errors);
        if sp.a.log.hard_errors + sp.a.log.zero_writes > 0 && !sp.a.out.is_empty() {
            out.probe("probe.write_fault_mid_value_left_torn_blob");
        }
        if let Some(m) = &sp.a.panicked {
            out.bad("serialize_does_not_panic", format!("Serialize panicked under write plan: {m}"));
        } else if sp.a.ok != sp.b.ok || sp.a.out != sp.b.out || sp.a.offered != sp.b.offered || sp.a.chunks != sp.b.chunks {
            out.bad(
                "bytes_and_write_calls_equal_twin",
                format!("{}: T ok={} bytes={} offered={:?}; twin ok={} bytes={} offered={:?}", p.fmt.name(), sp.a.ok, short(&sp.a.out), &sp.a.offered[..sp.a.offered.len().min(16)], sp.b.ok, short(&sp.b.out), &sp.b.offered[..sp.b.offered.len().min(16)]),
            );
        }
        if let (Some(inner), true) = (&sp.inner, p.fmt.newtype_transparent_bytes()) {
            out.probe("probe.bare_bytes_compared_with_inner");
            if sp.a.panicked.is_none() && (sp.a.ok != inner.ok || sp.a.out != inner.out || sp.a.offered != inner.offered) {
                out.bad(
                    "bytes_identical_to_inner_value_encoding",
                    format!("{}: newtype bytes {} (ok={}), bare inner value bytes {} (ok={})", p.fmt.name(), short(&sp.a.out), sp.a.ok, short(&inner.out), inner.ok),
                );
            }
        }
        out.log.bytes(&sp.a.out);
        out.log.u64(sp.a.ok as u64);
        out.class(if sp.a.ok { "written_ok" } else if sp.a.err.contains("simulated") || sp.a.err.contains("flush") || sp.a.err.contains("write zero") || sp.a.err.contains("failed to write") { "write_failed_by_fault" } else { "format_cannot_encode" });

        // ---- R1 / R2: disk history
        let mut disk = SimDisk::default();
        disk.put_raw(0, sp.a.out.clone(), sp.a.ok);
        let mut synced = false;
        for op in &p.after {
            match op {
                After::Sync => {
                    disk.sync(0);
                    synced = true;
                }
                After::Crash(mode) => {
                    let had_pending = disk.blobs.get(&0).map(|b| b.pending.is_some()).unwrap_or(false);
                    let mut m = BTreeMap::new();
                    m.insert(0u8, *mode);
                    disk.crash(&m);
                    if had_pending {
                        match mode {
                            CrashMode::LoseUnsynced => out.fire("fault.lost_unsynced_write", 1),
                            _ => out.fire("fault.torn_write", 1),
                        }
                    } else {
                        out.probe("probe.crash_after_sync_harmless");
                    }
                }
                After::Corrupt(c) => {
                    if disk.corrupt(0, *c) {
                        out.fire("fault.stored_bytes_corrupted", 1);
                    }
                }
                After::Get { api, rplan, tail } => {
                    let content = disk.visible(0);
                    let tainted = disk.blobs.get(&0).map(|b| b.tainted).unwrap_or(true);
                    let clean = sp.a.ok && !tainted && content == sp.a.out;
                    let rdr = SimReader::with_plan(content, rplan.clone(), *tail);
                    let r = diff_get::<D>(p.shape, core, p.fmt, *api, &rdr);
                    out.evals += 1;
                    out.steps += r.log_a.calls;
                    out.fire("fault.short_read", r.log_a.short_reads);
                    out.fire("fault.eintr", r.log_a.eintr);
                    // R2 (and the read half of R1): never anything but Err or a constructor-accepted value
                    if let Some((inv, d)) = r.violation() {
                        out.bad(inv, d);
                    }
                    if clean {
                        let _ = synced;
                        let twin_identity = r.b_raw.as_ref() == Some(&sp.reprs);
                        if twin_identity {
                            out.probe("probe.roundtrip_checked");
                            match &r.a {
                                Side::Ok(v, _) if *v == sp.reprs => out.class("roundtrip_identity"),
                                other => out.bad(
                                    "acknowledged_value_survives_round_trip",
                                    format!("{} {}: wrote values {:?} (bytes {}), the twin reads the same inner values back, but T reads back {:?}", p.fmt.name(), p.shape.name(), sp.reprs, short(&sp.a.out), other),
                                ),
                            }
                        } else {
                            out.probe("probe.roundtrip_precondition_false_inner_does_not_round_trip");
                            out.class("inner_does_not_round_trip_in_format");
                        }
                    } else {
                        out.probe("probe.read_back_of_failed_or_torn_put");
                        out.class(match &r.a {
                            Side::Ok(..) => "torn_read_back_as_accepted_value",
                            _ => "torn_read_back_as_err",
                        });
                    }
                    out.log.str(r.a.class());
                    if let Side::Ok(v, aux) = &r.a {
                        for x in v {
                            out.log.str(x);
                        }
                        out.log.str(aux);
                    }
                }
            }
        }
        // sanitiser actually changed something?
        let changed = raws.iter().zip(sp.reprs.iter()).any(|(r, s)| D::repr_raw(r) != *s);
        if changed {
            out.probe("probe.sanitizer_changed_the_input");
        }
        let mask = (sp.a.log.short_writes > 0) as u64
            | ((sp.a.log.eintr > 0) as u64) << 1
            | ((sp.a.log.hard_errors > 0) as u64) << 2
            | ((sp.a.log.zero_writes > 0) as u64) << 3
            | ((sp.a.log.flush_errors > 0) as u64) << 4
            | (p.trace_fail_at.is_some() as u64) << 5
            | (p.after.iter().any(|a| matches!(a, After::Crash(_))) as u64) << 6
            | (p.after.iter().any(|a| matches!(a, After::Corrupt(_))) as u64) << 7;
        if mask != 0 {
            let mut h = Fnv::default();
            h.str(&p.decl);
            h.str(p.fmt.name());
            h.str(p.shape.name());
            h.u64(mask);
            for (k, _) in &out.classes {
                h.str(k);
            }
            out.distinct.push(h.0);
        }
        out
    }
}

fn merge(st: &mut Stats, out: &Out) {
    st.evaluations += out.evals;
    st.steps += out.steps;
    for (k, v) in &out.fired {
        st.add(k, *v);
    }
    for (k, v) in &out.probes {
        st.add(k, *v);
    }
    for (k, v) in &out.classes {
        let key = format!("outcome.{k}");
        *st.dyn_counters.entry(key).or_insert(0) += *v;
    }
    st.distinct.extend(&out.distinct);
}

fn violation_of(p: &SerPlan, run_index: u64, inv: &str, detail: &str) -> Violation {
    Violation {
        run_index,
        scenario: "S-SER",
        decl: p.decl.clone(),
        invariant: inv.to_string(),
        signature: format!("{}:{}:{}", inv, p.fmt.name(), p.shape.name()),
        detail: detail.to_string(),
        plan: serde_json::to_value(p).unwrap(),
    }
}

fn run_one(seed: u64, run_index: u64, decls: &[usize], st: &mut Stats, ctx: &WorkerCtx) {
    let mut rng = Rng::for_run(seed, SC_SER, run_index);
    let idx = decls[(run_index % decls.len() as u64) as usize];
    let Some(plan) = with_decl(idx, Build { rng: &mut rng }) else {
        st.inc("plan_not_buildable");
        return;
    };
    let out = ctx.guarded(|| serde_json::to_value(&plan).unwrap(), || with_decl(idx, Exec { p: &plan }));
    if out.invalid_plan {
        st.inc("plan_invalid_skipped");
        return;
    }
    st.inc("runs");
    merge(st, &out);
    for (inv, d) in &out.violations {
        st.violation(violation_of(&plan, run_index, inv, d));
    }
    st.histories.push(out.log.0);
    if st.keep_trace {
        st.trace.push((run_index, out.log.0, (!out.violations.is_empty()) as u8));
    }
    st.sample(run_index, || {
        let mut v = serde_json::to_value(&plan).unwrap();
        v["run_index"] = json!(run_index);
        v
    });
}

// ------------------------------------------------------------------------------------ enumeration

struct EnumDecl;

impl DeclVisitor for EnumDecl {
    type Out = Stats;
    fn visit<D: Decl>(self, core: bool) -> Stats {
        let mut st = Stats::default();
        let valid: Vec<D::TwinInner> = D::corpus().into_iter().filter(|r| D::lift(r.clone()).and_then(D::construct).is_ok()).collect();
        if valid.is_empty() {
            return st;
        }
        let aux = Aux::fixed();
        let run = |st: &mut Stats, plan: SerPlan, kind: &'static str| {
            let out = with_decl(decl_index(D::NAME).unwrap(), Exec { p: &plan });
            if out.invalid_plan {
                return;
            }
            st.inc(kind);
            merge(st, &out);
            for (inv, d) in &out.violations {
                let mut v = violation_of(&plan, u64::MAX - 1, inv, d);
                v.scenario = "S-SER/enum";
                st.violation(v);
            }
        };
        for fmt in Format::BASE {
            for shape in [ShapeId::Bare, ShapeId::RecOf, ShapeId::VecOf] {
                if !<D::Shapes as simcore::shapes::ShapeSet>::LIST.contains(&shape) {
                    continue;
                }
                let k = arity(shape, &aux);
                for w in 0..valid.len() {
                    let raws: Vec<D::TwinInner> = (0..k).map(|j| valid[(w + j) % valid.len()].clone()).collect();
                    let Ok(toks) = to_tokens(&raws) else { continue };
                    let base = SerPlan {
                        scenario: "ser".into(),
                        decl: D::NAME.to_string(),
                        shape,
                        fmt,
                        aux: aux.clone(),
                        raws: toks,
                        wplan: vec![],
                        tail: 0,
                        flush_fail_at: None,
                        trace_fail_at: None,
                        after: vec![After::Sync, After::Get { api: Api::Reader, rplan: vec![], tail: 0 }],
                    };
                    // how long is the document / the call sequence?
                    let Ok(sp) = ser_pair::<D>(shape, core, fmt, &aux, raws.clone(), &[], 0, None) else { continue };
                    if !sp.a.ok || sp.a.out.len() > 96 {
                        continue;
                    }
                    let Ok(tp) = trace_pair::<D>(shape, core, &aux, raws.clone(), None) else { continue };
                    st.inc("enum_documents");
                    run(&mut st, base.clone(), "enum.fault_free_roundtrip");
                    // a format error at every serializer call
                    for kcall in 0..=tp.a.calls {
                        let mut p = base.clone();
                        p.trace_fail_at = Some(kcall);
                        p.after = vec![];
                        run(&mut st, p, "enum.format_error_at_every_call");
                    }
                    // a write error / a full disk at every byte (chunk 1), and at every call (whole)
                    for at in 0..=sp.a.out.len() {
                        for step in [WriteStep::Fail(IoErr::Other), WriteStep::Zero] {
                            let mut p = base.clone();
                            p.wplan = (0..at).map(|_| WriteStep::Accept(1)).collect();
                            p.wplan.push(step);
                            p.tail = 1;
                            p.after = vec![After::Get { api: Api::Reader, rplan: vec![], tail: 0 }];
                            run(&mut st, p, "enum.write_error_at_every_byte");
                        }
                    }
                    for at in 0..=sp.a.offered.len() {
                        let mut p = base.clone();
                        p.wplan = (0..at).map(|_| WriteStep::Accept(u32::MAX)).collect();
                        p.wplan.push(WriteStep::Fail(IoErr::Other));
                        p.after = vec![After::Get { api: Api::Reader, rplan: vec![], tail: 0 }];
                        run(&mut st, p, "enum.write_error_at_every_call");
                    }
                    // every crash prefix of the unsynced write
                    for kp in 0..=sp.a.out.len() {
                        let mut p = base.clone();
                        p.after = vec![After::Crash(CrashMode::TornPrefix(kp as u32)), After::Get { api: Api::Reader, rplan: vec![], tail: 0 }];
                        run(&mut st, p, "enum.every_crash_prefix");
                    }
                    // benign chunkings of write and read
                    for chunk in [1u32, 2, 3] {
                        let mut p = base.clone();
                        p.tail = chunk;
                        p.after = vec![After::Sync, After::Get { api: Api::Reader, rplan: vec![], tail: chunk }];
                        run(&mut st, p, "enum.chunked_write_and_read");
                    }
                }
            }
        }
        st.compact();
        st
    }
}

// ------------------------------------------------------------------------------------ replay / minimise

fn exec_plan(plan: &Value) -> Result<Vec<(String, String)>, String> {
    let p: SerPlan = serde_json::from_value(plan.clone()).map_err(|e| e.to_string())?;
    let idx = decl_index(&p.decl).ok_or_else(|| format!("unknown declaration {:?}", p.decl))?;
    let out = with_decl(idx, Exec { p: &p });
    if out.invalid_plan {
        return Err("plan no longer buildable (a stored raw value is rejected by the constructor)".into());
    }
    Ok(out.violations)
}

fn still_fails(p: &SerPlan, inv: &str) -> Option<String> {
    exec_plan(&serde_json::to_value(p).unwrap()).ok()?.into_iter().find(|(i, _)| i == inv).map(|(_, d)| d)
}

fn minimise(v: &Violation) -> Violation {
    let Ok(mut p) = serde_json::from_value::<SerPlan>(v.plan.clone()) else { return v.clone() };
    let mut detail = v.detail.clone();
    let try_plan = |p: &mut SerPlan, t: SerPlan, detail: &mut String| {
        if let Some(d) = still_fails(&t, &v.invariant) {
            *p = t;
            *detail = d;
            true
        } else {
            false
        }
    };
    let mut t = p.clone();
    t.wplan = vec![];
    t.tail = 0;
    t.flush_fail_at = None;
    try_plan(&mut p, t, &mut detail);
    let mut t = p.clone();
    t.trace_fail_at = None;
    try_plan(&mut p, t, &mut detail);
    let mut i = p.after.len();
    while i > 0 {
        i -= 1;
        let mut t = p.clone();
        t.after.remove(i);
        try_plan(&mut p, t, &mut detail);
    }
    for i in 0..p.after.len() {
        if let After::Get { api, .. } = p.after[i].clone() {
            let mut t = p.clone();
            t.after[i] = After::Get { api, rplan: vec![], tail: 0 };
            try_plan(&mut p, t, &mut detail);
        }
    }
    Violation { plan: serde_json::to_value(&p).unwrap(), detail, ..v.clone() }
}

// ------------------------------------------------------------------------------------ modes

fn hang_exit(cfg: &Config, plan: Value) -> ! {
    let v = Violation {
        run_index: 0,
        scenario: "S-SER",
        decl: plan["decl"].as_str().unwrap_or("?").to_string(),
        invariant: "terminates".into(),
        signature: "hang".into(),
        detail: format!("a simulated run did not finish within {}s", HANG_LIMIT.as_secs()),
        plan,
    };
    let path = report::write_replay(cfg, &v);
    println!("VIOLATION property={} replay={} decl={} invariant=terminates signature=hang", cfg.property, path.display(), v.decl);
    std::process::exit(report::EXIT_VIOLATION)
}

fn sweep(cfg: &Config, decls: &[usize], n: u64, keep_trace: bool, workers: usize) -> Stats {
    let seed = cfg.seed;
    let cfg2 = cfg.clone();
    runner::run_sharded(n, workers, keep_trace, HANG_LIMIT, move |plan| hang_exit(&cfg2, plan), |i, st, ctx| run_one(seed, i, decls, st, ctx))
}

fn run_check(cfg: &Config) -> i32 {
    let t0 = Instant::now();
    let mut determinism_diverged = false;
    let decls = c10_decls();
    let n: u64 = if cfg.thorough() { 20_000_000 } else { 600_000 };
    let cfg2 = cfg.clone();
    let dl = decls.clone();
    let mut stats = runner::run_sharded(
        decls.len() as u64,
        cfg.workers,
        false,
        HANG_LIMIT,
        move |plan| hang_exit(&cfg2, plan),
        |i, st, _| {
            let s = with_decl(dl[i as usize], EnumDecl);
            st.merge(s);
        },
    );
    let enum_evals = stats.evaluations;
    stats.merge(sweep(cfg, &decls, n, false, cfg.workers));
    let a = sweep(cfg, &decls, 1024, true, 3);
    let b = sweep(cfg, &decls, 1024, true, cfg.workers.max(2));
    if a.trace != b.trace {
        determinism_diverged = true;
    }
    let out = report::settle_violations(cfg, &stats, &minimise);
    if determinism_diverged {
        if out.new_violations == 0 {
            // The simulator is deterministic on the unchanged tree (./check selfcheck); if the same
            // seeds give different event logs at different worker counts, something in the run has
            // state that outlives a run. Without a concrete violation this is reported as a harness
            // error, never as a property violation.
            report::harness_error("determinism probe failed: the same seeds produced different event logs at different worker counts");
        }
        println!("NOTE: the determinism probe also diverged (results depend on which runs shared a worker thread: hidden state that outlives a run)");
    }
    let wall = t0.elapsed().as_secs_f64();
    let must = [
        "probe.bare_trace_compared_with_inner",
        "probe.bare_bytes_compared_with_inner",
        "probe.write_fault_mid_value_left_torn_blob",
        "probe.roundtrip_checked",
        "probe.roundtrip_precondition_false_inner_does_not_round_trip",
        "probe.read_back_of_failed_or_torn_put",
        "probe.sanitizer_changed_the_input",
        "probe.crash_after_sync_harmless",
        "fault.format_error",
        "fault.torn_write",
        "fault.lost_unsynced_write",
        "fault.disk_full",
        "fault.flush_error",
    ];
    let stuck: Vec<&str> = must.iter().copied().filter(|k| stats.get(k) == 0).collect();
    if !stuck.is_empty() && out.new_violations == 0 {
        report::harness_error(&format!("reach probes stuck at zero: {stuck:?}"));
    }
    let mut extra = Map::new();
    extra.insert("declarations".into(), json!(decls.iter().map(|i| decl_name(*i)).collect::<Vec<_>>()));
    extra.insert("core_declarations_all_16_positions".into(), json!(decls.iter().filter(|i| decl_is_core(**i)).map(|i| decl_name(*i)).collect::<Vec<_>>()));
    extra.insert("excluded_non_idempotent".into(), json!(cat_c10::NOT_IDEMPOTENT));
    extra.insert("sub_scenarios".into(), json!({"enum_single_fault_evaluations": enum_evals, "seeded_runs": n}));
    extra.insert("determinism_probe".into(), json!({"runs": 1024, "worker_counts": [3, cfg.workers.max(2)], "event_logs_identical": true}));
    report::write_evidence(
        cfg,
        &stats,
        &out,
        wall,
        EvidenceExtra {
            level: "fault_enumeration",
            rule: "one run = valid values v (seeded raw inputs through the real constructor) placed in one of 16 container positions, then: serializer call trace of Shape<T> vs Shape<Twin> vs [newtype_struct]++inner on the SimFormat peer (optionally failing at call k); bytes / offered buffers / accepted chunks / outcome of T vs twin vs bare inner under cloned SimWriters with one write plan (short writes, EINTR, errors, full disk, flush error) in json/ron/msgpack; then a disk history (sync, crash with lost/torn data, corruption) and reads: an acknowledged+synced+untouched put must read back equal to v whenever the twin's own round trip is the identity, anything else must read back as Err or a constructor-accepted value. (a) enum: for every declaration x format x {bare, struct, Vec} x valid corpus value: format error at EVERY serializer call, write error and full disk at EVERY byte and every write call, EVERY crash prefix, chunked write+read - complete over single faults for that corpus; (b) seeded multi-fault runs. evaluations counts comparisons (trace, write, each get). Non-trivial = some fault was injected; distinct = distinct (declaration, format, position, fault-kind set, outcome classes) tuples.".into(),
            assumptions: vec![
                "serde_derive's Serialize/Deserialize for the same-named twin struct is the definition of 'a serde newtype struct around the inner value'".into(),
                "catalogue restricted, as the property is, to built-in or idempotent sanitizers".into(),
                "the round-trip precondition (inner value round-trips in that format) is evaluated on the twin per value, not assumed".into(),
            ],
            real_components: vec!["nutype_macros expansion from /repo (Serialize, Deserialize, constructors)", "serde 1.0.203", "serde_json 1.0.117", "ron 0.8.1", "rmp-serde 1.1.2", "std"],
            stub_components: vec!["SimWriter / SimReader", "SimDisk (pending/durable, crash, corruption)", "SimFormat tracing serializer (format_error at call k)"],
            extra,
            exhaustive: false,
        },
    );
    println!(
        "C10 S-SER: {} evaluations ({} enum, {} seeded runs), {} distinct non-trivial, {} new violation signatures, {:.1}s",
        stats.evaluations, enum_evals, n, stats.distinct.len(), out.new_violations, wall
    );
    if out.new_violations > 0 {
        report::EXIT_VIOLATION
    } else {
        report::EXIT_OK
    }
}

fn run_replay(cfg: &Config, path: &str) -> i32 {
    let text = std::fs::read_to_string(path).unwrap_or_else(|e| report::harness_error(&format!("cannot read {path}: {e}")));
    let v: Value = serde_json::from_str(&text).unwrap_or_else(|e| report::harness_error(&format!("bad replay file: {e}")));
    let want = v["invariant"].as_str().unwrap_or("").to_string();
    match exec_plan(&v["plan"]) {
        Err(e) => {
            println!("NOT-REPRODUCED: {e}");
            report::EXIT_HARNESS
        }
        Ok(vs) => {
            if let Some((inv, d)) = vs.iter().find(|(i, _)| *i == want) {
                println!("REPRODUCED property={} decl={} invariant={} detail={}", cfg.property, v["decl"].as_str().unwrap_or("?"), inv, d.replace('\n', " "));
                report::EXIT_VIOLATION
            } else if let Some((inv, _)) = vs.first() {
                println!("REPLAY-DIVERGED: expected invariant {want}, got {inv}");
                report::EXIT_HARNESS
            } else {
                println!("NOT-REPRODUCED: the stored plan no longer violates C10 on this tree");
                report::EXIT_HARNESS
            }
        }
    }
}

fn main() {
    let args: Vec<String> = std::env::args().skip(1).collect();
    let cfg = Config::from_env(PROPERTY, &args);
    runner::quiet_panics();
    let code = match args.first().map(|s| s.as_str()) {
        Some("replay") => run_replay(&cfg, args.get(1).map(|s| s.as_str()).unwrap_or("")),
        Some("tracehash") => {
            let n: u64 = args.get(1).and_then(|s| s.parse().ok()).unwrap_or(4096);
            let st = sweep(&cfg, &c10_decls(), n, true, cfg.workers);
            let mut h = Fnv::default();
            for (i, l, v) in &st.trace {
                h.u64(*i);
                h.u64(*l);
                h.u64(*v as u64);
            }
            println!("TRACEHASH scenario=S-SER seed={} runs={} hash={:016x}", cfg.seed, n, h.0);
            0
        }
        _ => run_check(&cfg),
    };
    std::process::exit(code);
}

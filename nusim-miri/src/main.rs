//! Miri tier of S-DESER / S-CHAIN (properties C04 and C11): the only state shared between caller
//! threads in nutype's generated code is `static __NUTYPE_REGEX__: LazyLock<Regex>` (regex
//! literal validators). Three client threads start cold and concurrently deserialize from their
//! own chunked readers, construct, and walk conversion chains on a regex-literal newtype, a
//! regex-static-path newtype and a plain one. The interleaving is decided by Miri's seeded
//! scheduler (-Zmiri-seed / -Zmiri-many-seeds, preemption rate 0.1), which also reports data
//! races and deadlocks. The oracle is a sequential re-evaluation AFTER join (so it cannot warm
//! the LazyLock before the race).
//!
//! argv[1] = workload seed. Exit 0 and a line "MIRI-OK .." or exit 1 and "MIRI-VIOLATION ..".

use std::io::Read;
use std::sync::atomic::{AtomicUsize, Ordering};
use std::sync::{Arc, Barrier, LazyLock};

use nutype::nutype;
use regex::Regex;

#[nutype(
    sanitize(trim, lowercase),
    validate(regex = "^[a-z0-9-]{1,8}$"),
    derive(Debug, Clone, PartialEq, Display, FromStr, AsRef, Serialize, Deserialize)
)]
pub struct Slug(String);

pub static CODE_RE: LazyLock<Regex> = LazyLock::new(|| Regex::new("^[A-Z]{2}-[0-9]{1,3}$").unwrap());

#[nutype(
    validate(regex = CODE_RE),
    derive(Debug, Clone, PartialEq, Display, FromStr, AsRef, Serialize, Deserialize)
)]
pub struct Code(String);

#[nutype(
    sanitize(trim),
    validate(not_empty, len_char_max = 6),
    derive(Debug, Clone, PartialEq, Display, FromStr, AsRef, Serialize, Deserialize)
)]
pub struct Name(String);

struct Chunked<'a> {
    data: &'a [u8],
    pos: usize,
    chunk: usize,
}
impl<'a> Read for Chunked<'a> {
    fn read(&mut self, buf: &mut [u8]) -> std::io::Result<usize> {
        let n = self.chunk.min(buf.len()).min(self.data.len() - self.pos);
        buf[..n].copy_from_slice(&self.data[self.pos..self.pos + n]);
        self.pos += n;
        Ok(n)
    }
}

fn splitmix(x: &mut u64) -> u64 {
    *x = x.wrapping_add(0x9E37_79B9_7F4A_7C15);
    let mut z = *x;
    z = (z ^ (z >> 30)).wrapping_mul(0xBF58_476D_1CE4_E5B9);
    z = (z ^ (z >> 27)).wrapping_mul(0x94D0_49BB_1331_11EB);
    z ^ (z >> 31)
}

const SLUGS: &[&str] = &["abc", "  AbC-1 ", "a_b", "", "toolongslug", "Z", " q9 "];
const CODES: &[&str] = &["AB-1", "ab-1", "AB-1234", "ZZ-999", " AB-1"];
const NAMES: &[&str] = &[" bob ", "", "   ", "abcdefg", "ß"];

#[derive(Clone, Copy)]
enum Op {
    SlugDe(usize, usize),
    SlugNew(usize),
    SlugChain(usize),
    CodeDe(usize, usize),
    CodeNew(usize),
    NameDe(usize, usize),
}

fn ops_for(seed: u64, thread: u64) -> Vec<Op> {
    let mut s = seed ^ thread.wrapping_mul(0xA24B_AED4_963E_E407);
    let mut v = Vec::new();
    // The first op of every thread touches the regex-literal newtype, so the cold LazyLock is raced.
    v.push(match splitmix(&mut s) % 3 {
        0 => Op::SlugDe((splitmix(&mut s) % SLUGS.len() as u64) as usize, 1 + (splitmix(&mut s) % 3) as usize),
        1 => Op::SlugNew((splitmix(&mut s) % SLUGS.len() as u64) as usize),
        _ => Op::SlugChain((splitmix(&mut s) % SLUGS.len() as u64) as usize),
    });
    for _ in 0..3 {
        let i = splitmix(&mut s);
        let k = splitmix(&mut s);
        v.push(match i % 6 {
            0 => Op::SlugDe((k % SLUGS.len() as u64) as usize, 1 + (k % 4) as usize),
            1 => Op::SlugNew((k % SLUGS.len() as u64) as usize),
            2 => Op::SlugChain((k % SLUGS.len() as u64) as usize),
            3 => Op::CodeDe((k % CODES.len() as u64) as usize, 1 + (k % 4) as usize),
            4 => Op::CodeNew((k % CODES.len() as u64) as usize),
            _ => Op::NameDe((k % NAMES.len() as u64) as usize, 1 + (k % 4) as usize),
        });
    }
    v
}

fn exec(op: Op) -> String {
    match op {
        Op::SlugDe(i, chunk) => {
            let doc = serde_json::to_vec(&vec![SLUGS[i], SLUGS[(i + 1) % SLUGS.len()]]).unwrap();
            let r: Result<Vec<Slug>, _> = serde_json::from_reader(Chunked { data: &doc, pos: 0, chunk });
            match r {
                Ok(v) => format!("ok:{:?}", v.iter().map(|s| s.as_ref().to_string()).collect::<Vec<_>>()),
                Err(_) => "err".into(),
            }
        }
        Op::SlugNew(i) => match Slug::try_new(SLUGS[i]) {
            Ok(s) => format!("ok:{}", s),
            Err(e) => format!("err:{e:?}"),
        },
        Op::SlugChain(i) => match Slug::try_new(SLUGS[i]) {
            Ok(s) => {
                let a = Slug::try_new(s.clone().into_inner());
                let b = s.to_string().parse::<Slug>();
                let c: Result<Slug, _> = serde_json::from_str(&serde_json::to_string(&s).unwrap());
                format!("chain:{}:{}:{}", a == Ok(s.clone()), b == Ok(s.clone()), c.ok() == Some(s))
            }
            Err(e) => format!("err:{e:?}"),
        },
        Op::CodeDe(i, chunk) => {
            let doc = serde_json::to_vec(CODES[i]).unwrap();
            let r: Result<Code, _> = serde_json::from_reader(Chunked { data: &doc, pos: 0, chunk });
            match r {
                Ok(v) => format!("ok:{v}"),
                Err(_) => "err".into(),
            }
        }
        Op::CodeNew(i) => match Code::try_new(CODES[i]) {
            Ok(s) => format!("ok:{s}"),
            Err(e) => format!("err:{e:?}"),
        },
        Op::NameDe(i, chunk) => {
            let doc = serde_json::to_vec(NAMES[i]).unwrap();
            let r: Result<Name, _> = serde_json::from_reader(Chunked { data: &doc, pos: 0, chunk });
            match r {
                Ok(v) => format!("ok:{v}"),
                Err(_) => "err".into(),
            }
        }
    }
}

static INSIDE_FIRST: AtomicUsize = AtomicUsize::new(0);
static MAX_INSIDE_FIRST: AtomicUsize = AtomicUsize::new(0);

fn main() {
    let seed: u64 = std::env::args().nth(1).and_then(|s| s.parse().ok()).unwrap_or(1);
    const THREADS: u64 = 3;
    let barrier = Arc::new(Barrier::new(THREADS as usize));
    let mut handles = Vec::new();
    for t in 0..THREADS {
        let barrier = barrier.clone();
        handles.push(std::thread::spawn(move || {
            let ops = ops_for(seed, t);
            barrier.wait();
            let mut out = Vec::new();
            for (k, op) in ops.iter().enumerate() {
                if k == 0 {
                    let n = INSIDE_FIRST.fetch_add(1, Ordering::SeqCst) + 1;
                    MAX_INSIDE_FIRST.fetch_max(n, Ordering::SeqCst);
                }
                out.push(exec(*op));
                if k == 0 {
                    INSIDE_FIRST.fetch_sub(1, Ordering::SeqCst);
                }
            }
            out
        }));
    }
    let results: Vec<Vec<String>> = handles.into_iter().map(|h| h.join().expect("client thread panicked")).collect();
    // Sequential oracle, after the race.
    let mut bad = Vec::new();
    for t in 0..THREADS {
        for (k, op) in ops_for(seed, t).iter().enumerate() {
            let want = exec(*op);
            let got = &results[t as usize][k];
            if *got != want {
                bad.push(format!("thread {t} op {k}: concurrent {got:?} vs sequential {want:?}"));
            }
            if got.starts_with("chain:") && got != "chain:true:true:true" {
                bad.push(format!("thread {t} op {k}: chain left the value: {got}"));
            }
        }
    }
    let overlapped = MAX_INSIDE_FIRST.load(Ordering::SeqCst) >= 2;
    if bad.is_empty() {
        println!("MIRI-OK workload_seed={seed} first_use_overlapped={overlapped} ops={}", results.iter().map(|r| r.len()).sum::<usize>());
    } else {
        println!("MIRI-VIOLATION workload_seed={seed} first_use_overlapped={overlapped} {}", bad.join("; "));
        std::process::exit(1);
    }
}

#!/usr/bin/env bash
# tools/with_patch.sh <patch.diff> <ID> [<ID>...]   apply a patch to /repo, run the quick checks, ALWAYS revert.
# Prints one line per check: "<ID> exit=<rc> <first VIOLATION line, if any>". Used for sensitivity testing only.
# VERIF_REPO / VERIF_HOME select a snapshot pair instead of /repo and /verif (used inside `vp run --with-repo`).
set -u
REPO="${VERIF_REPO:-/repo}"; HOME_V="${VERIF_HOME:-/verif}"
patch="$(readlink -f "$1")"; shift
cd "$REPO" || exit 2
if [ -n "$(git status --porcelain --untracked-files=no)" ]; then echo "with_patch: /repo has local changes, refusing" >&2; exit 2; fi
git apply --check "$patch" || { echo "with_patch: patch does not apply" >&2; exit 2; }
git apply "$patch"
# the checks rewrite evidence/ on every run: keep the clean-tree files and put them back afterwards
ev_keep="$(mktemp -d)"; cp -a "$HOME_V/evidence/." "$ev_keep/" 2>/dev/null
trap 'cd "$REPO" && git checkout -- . && git clean -fdq -- nutype nutype_macros test_suite examples 2>/dev/null; cp -a "$ev_keep/." "$HOME_V/evidence/" 2>/dev/null; rm -rf "$ev_keep"' EXIT
for id in "$@"; do
  out="$(cd "$HOME_V" && VERIF_KEEP_EVIDENCE=1 ./check "$id" --tier "${TIER:-quick}" 2>&1)"; rc=$?
  echo "$id exit=$rc $(echo "$out" | grep -m1 -E '^(VIOLATION|HARNESS-ERROR)' | cut -c1-400)"
  n=$(echo "$out" | grep -c '^VIOLATION')
  [ "$n" -gt 1 ] && echo "   ($n VIOLATION lines)"
done

#!/usr/bin/env bash
# tools/with_patch.sh <patch.diff> <ID> [<ID>...]   apply a patch to /repo, run the quick checks, ALWAYS revert.
# Prints one line per check: "<ID> exit=<rc> <first VIOLATION line, if any>". Used for sensitivity testing only.
set -u
patch="$(readlink -f "$1")"; shift
cd /repo || exit 2
if [ -n "$(git status --porcelain --untracked-files=no)" ]; then echo "with_patch: /repo has local changes, refusing" >&2; exit 2; fi
git apply --check "$patch" || { echo "with_patch: patch does not apply" >&2; exit 2; }
git apply "$patch"
trap 'cd /repo && git checkout -- . && git clean -fdq -- nutype nutype_macros test_suite examples 2>/dev/null' EXIT
for id in "$@"; do
  out="$(cd /verif && VERIF_KEEP_EVIDENCE=1 ./check "$id" --tier "${TIER:-quick}" 2>&1)"; rc=$?
  echo "$id exit=$rc $(echo "$out" | grep -m1 -E '^(VIOLATION|HARNESS-ERROR)' | cut -c1-400)"
  n=$(echo "$out" | grep -c '^VIOLATION')
  [ "$n" -gt 1 ] && echo "   ($n VIOLATION lines)"
done

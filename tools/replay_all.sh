#!/usr/bin/env bash
# replay every stored violation in /verif/replays and print one line each (used for self-testing the replay path)
cd /verif
for f in replays/*.json replays/*-build-*.log; do [ -f "$f" ] || continue; out=$(./check replay "$f" 2>&1 | tail -1 | cut -c1-140); echo "$(basename $f) rc=$? $out"; done

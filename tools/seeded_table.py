#!/usr/bin/env python3
"""Regenerate /verif/seeded/README.md from the meta.json files."""
import json, glob, os
rows = []
for d in sorted(glob.glob('/verif/seeded/*/meta.json')):
    m = json.load(open(d))
    rows.append(m)
out = ["# Seeded changes (written by independent sub-agents, confirmed by me)\n",
       "Each directory holds `patch.diff` (apply with `git -C /repo apply`), the agent's demonstration crate `demo/`, and `meta.json`.",
       "Every change compiles, passes the 211 pinned tests, and its demonstration fails with it and passes without it (re-run by me in the agent's worktree).",
       "`detected by` = which of the four quick checks exit 1 with a VIOLATION line when the change is applied to /repo (`tools/with_patch.sh`).\n",
       "| id | breaks | what it needs to manifest | detected by |", "|---|---|---|---|"]
for m in rows:
    need = (m.get('needs_to_manifest') or '').replace('\n', ' ').replace('|', '/')
    if len(need) > 260: need = need[:257] + '...'
    out.append(f"| {m['name']} | {m.get('property')} | {need} | {', '.join(m.get('detected_by') or []) or '**none**'} |")
open('/verif/seeded/README.md', 'w').write('\n'.join(out) + '\n')
print('\n'.join(out[-len(rows):]))

#!/usr/bin/env bash
# tools/verify_seeded.sh <worktree> <name>  — confirm a sub-agent's seeded change independently, then store it
# under /verif/seeded/<name>/ and run the four quick checks against it (applied to /repo, reverted afterwards).
set -u
wt="$1"; name="$2"
dst="/verif/seeded/$name"
mkdir -p "$dst"
cd "$wt" || exit 2
[ -s mutant.diff ] || { echo "no mutant.diff"; exit 2; }
# 1. the diff is what is applied
git diff -- nutype nutype_macros > /tmp/.cur.diff
if ! diff -q /tmp/.cur.diff mutant.diff >/dev/null; then echo "NOTE: mutant.diff differs from the worktree's current diff; using the worktree's diff"; cp /tmp/.cur.diff mutant.diff; fi
# 2. existing suite passes with the change
t=$(CARGO_NET_OFFLINE=true cargo nextest run --workspace --no-fail-fast --offline 2>&1 | grep -E "Summary|tests run" | tail -1)
echo "suite with change: $t"
# 3. demo fails with the change
( cd demo && cp ../Cargo.lock Cargo.lock 2>/dev/null; CARGO_NET_OFFLINE=true timeout 600 cargo run --offline -q >/tmp/.demo_with.txt 2>&1 ); with=$?
if [ -z "$(ls demo/src/main.rs 2>/dev/null)" ]; then ( cd demo && CARGO_NET_OFFLINE=true timeout 600 cargo test --offline -q >/tmp/.demo_with.txt 2>&1 ); with=$?; fi
git apply -R mutant.diff || { echo "cannot reverse"; exit 2; }
if [ -n "$(ls demo/src/main.rs 2>/dev/null)" ]; then ( cd demo && CARGO_NET_OFFLINE=true timeout 600 cargo run --offline -q >/tmp/.demo_without.txt 2>&1 ); without=$?
else ( cd demo && CARGO_NET_OFFLINE=true timeout 600 cargo test --offline -q >/tmp/.demo_without.txt 2>&1 ); without=$?; fi
git apply mutant.diff
echo "demo exit with change: $with (want != 0); without: $without (want 0)"
cp mutant.diff "$dst/patch.diff"
rm -rf "$dst/demo"; mkdir -p "$dst/demo"; cp -r demo/Cargo.toml demo/src "$dst/demo/" 2>/dev/null; [ -d demo/tests ] && cp -r demo/tests "$dst/demo/"
cp meta.json "$dst/agent_meta.json" 2>/dev/null
# 4. my checks
res=$(/verif/tools/with_patch.sh "$dst/patch.diff" C04 C09 C10 C11 2>&1)
echo "$res"
python3 - "$dst" "$name" "$t" "$with" "$without" "$res" <<'PY'
import json, sys, os
dst, name, suite, w, wo, res = [a.encode('utf-8', 'replace').decode('utf-8', 'replace') for a in sys.argv[1:7]]
am = {}
try: am = json.load(open(f"{dst}/agent_meta.json"))
except Exception: pass
det = [l.split()[0] for l in res.splitlines() if " exit=1 " in l]
meta = {
  "name": name, "property": am.get("property"), "summary": am.get("summary"), "needs_to_manifest": am.get("needs_to_manifest"),
  "why_tests_pass": am.get("why_tests_pass"),
  "confirmed": {"existing_suite_with_change": suite.strip(), "demo_exit_with_change": int(w), "demo_exit_without_change": int(wo),
                "what_i_ran": "cargo nextest run --workspace --offline in the agent's worktree with the change; demo crate with and without the change (git apply -R); then tools/with_patch.sh patch.diff C04 C09 C10 C11 against /repo"},
  "quick_checks": [l for l in res.splitlines() if " exit=" in l],
  "detected_by": det,
}
json.dump(meta, open(f"{dst}/meta.json", "w"), indent=1, ensure_ascii=False)
print("detected_by:", det)
PY

#!/usr/bin/env bash
# tools/regress_seeded.sh [name-glob]   re-run, for every stored seeded change, the quick checks that
# meta.json says detect it (with the change applied to /repo, always reverted), and report any that no
# longer do. Serial, ~1-2 min per change. Nothing else may build from /repo while this runs.
set -u
cd "${VERIF_HOME:-/verif}"
pat="${1:-*}"
fail=0
for d in seeded/$pat/; do
  [ -f "$d/meta.json" ] || continue
  name=$(basename "$d")
  ids=$(python3 -c "import json,sys; print(' '.join(json.load(open('$d/meta.json')).get('detected_by') or []))")
  [ -n "$ids" ] || { echo "$name: no detecting check recorded"; fail=1; continue; }
  out=$(tools/with_patch.sh "$d/patch.diff" $ids 2>&1)
  missed=$(echo "$out" | grep -E '^C[0-9]+ exit=' | grep -v 'exit=1 VIOLATION' | cut -c1-60 | tr '\n' ';')
  if [ -n "$missed" ] || ! echo "$out" | grep -q 'exit=1 VIOLATION'; then
    echo "$name: REGRESSION expected [$ids] got: $(echo "$out" | cut -c1-120 | tr '\n' ';')"
    fail=1
  else
    echo "$name: still detected by [$ids]"
  fi
done
exit $fail

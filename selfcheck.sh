#!/usr/bin/env bash
# Determinism of the simulator itself: the same VERIF_SEED must give the same per-run event logs
# in fresh processes, at different worker counts. Exit 0 = identical everywhere, 2 = divergence.
# usage: ./check selfcheck [runs-per-scenario]   (default 4096)
set -u
VERIF_DIR="$(cd "$(dirname "${BASH_SOURCE[0]}")" && pwd)"
BIN="$VERIF_DIR/nusim/target/release"
N="${1:-4096}"
"$VERIF_DIR/check" build >/dev/null 2>&1 || { echo "HARNESS-ERROR: build failed" >&2; exit 2; }
rc=0
for id in c04 c09 c10 c11; do
  for seed in 1 20261002 987654321; do
    ref=""
    for w in 1 5 16 16 3; do
      h="$(VERIF_SEED=$seed VERIF_WORKERS=$w "$BIN/nusim-$id" tracehash "$N" | grep '^TRACEHASH' | sed 's/.*hash=//')"
      [ -z "$ref" ] && ref="$h"
      if [ "$h" != "$ref" ] || [ -z "$h" ]; then echo "DIVERGENCE $id seed=$seed workers=$w hash=$h ref=$ref"; rc=2; fi
    done
    echo "selfcheck $id seed=$seed runs=$N workers={1,5,16,16,3} hash=$ref"
  done
done
[ $rc -eq 0 ] && echo "selfcheck: all event-log hashes identical across 5 fresh processes x 3 seeds x 4 scenarios"
exit $rc
